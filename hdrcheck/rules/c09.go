package rules

import (
	"go/types"
	"strings"

	"golang.org/x/tools/go/ssa"

	"hdrcheck/an"
)

func init() {
	register(&Rule{
		ID: "C09",
		Explanation: "Decides for Exchange.Head: (a) every value sent by a per-peer goroutine is classified: with a trusted head, a non-zero header without soft error is sent only under Verify(TrustedHead, headers[0])==nil, a soft error is sent only as that very Verify error under errors.As(*VerifyError) ∧ SoftFailure together with the header, every failing path sends the zero header; useTrackedPeers is exactly !TrustedHead.IsZero(); " +
			"(b) both success returns return softErrs[hash of the returned header], softErrs is written only with the soft error of the header hashed, no header collected ⇒ (zero, ErrNotFound); " +
			"(c) the early return is guarded by counter[hash] ≥ minHeadResponses(len(asked peers)) on the counter just incremented for that hash, and minHeadResponses(n) returns n for n ≤ 2; " +
			"(d) the fallback sorts descending by Height() and returns element 0.",
		NotDecided: []string{
			"the value of the quorum formula for n ≥ 3 (a numeric result; evaluating it would be running the code)",
			"arrival orders, hanging peers, timing",
		},
		Technique: "classification of channel payloads by dominance facts with assumption pruning, return-pair term equality, map-update provenance, structural check of the quorum guard and the sort comparator",
		Trusted:   "go/types+go/ssa; C01 for the meaning of Verify; purity of header observers and Hash.String",
		Run:       runC09,
	})
}

// structLit resolves a struct literal value (load of a temp alloc with field stores) into field → value.
func structLit(v ssa.Value) (map[string]ssa.Value, bool) {
	u, ok := v.(*ssa.UnOp)
	if !ok {
		return nil, false
	}
	al, ok := u.X.(*ssa.Alloc)
	if !ok || al.Referrers() == nil {
		return nil, false
	}
	out := map[string]ssa.Value{}
	for _, r := range *al.Referrers() {
		if fa, ok := r.(*ssa.FieldAddr); ok && fa.Referrers() != nil {
			for _, rr := range *fa.Referrers() {
				if st, ok := rr.(*ssa.Store); ok && st.Addr == fa {
					out[fieldName(fa)] = st.Val
				}
			}
		}
	}
	return out, true
}

func runC09(c *an.Ctx) {
	p := c.P
	head := p.Method("p2p", "Exchange", "Head")
	request := p.Method("p2p", "Exchange", "request")
	verify := p.Func("", "Verify")
	minHead := p.Func("p2p", "minHeadResponses")
	ok := c.Need(head, "C09.a", "p2p.(*Exchange).Head")
	ok = c.Need(request, "C09.a", "p2p.(*Exchange).request") && ok
	ok = c.Need(verify, "C09.a", "header.Verify") && ok
	ok = c.Need(minHead, "C09.c", "p2p.minHeadResponses") && ok
	if !ok {
		return
	}
	ht, hf := c.T(head), c.F(head)

	// --- C09.a payload classification in the per-peer goroutines
	// the flag "a trusted head was given": the boolean local that is assigned !TrustedHead.IsZero()
	flagName := "useTrackedPeers"
	an.Instrs(head, func(in ssa.Instruction) {
		if st, isSt := in.(*ssa.Store); isSt {
			if al, isAl := st.Addr.(*ssa.Alloc); isAl {
				if v := ht.Of(st.Val); strings.HasPrefix(v, "!IsZero(") && strings.Contains(v, ".TrustedHead") {
					flagName = al.Comment
				}
			}
		}
	})
	nSend := 0
	for _, cl := range head.AnonFuncs {
		ct, cf := c.T(cl), c.F(cl)
		rcs := callsTo(cl, request)
		if len(rcs) != 1 {
			continue
		}
		rc := rcs[0]
		first := ct.Of(rc) + "#0[0]"
		reqErr := ct.Of(rc) + "#1"
		var useTracked an.Fact
		haveTracked := false
		for _, f := range condFacts(ct) {
			if f.Op == "B" && strings.Contains(f.A, "fv:"+flagName+"@") {
				useTracked, haveTracked = an.B(f.A), true
			}
		}
		if !c.Check(haveTracked, "C09.a", "tracked-flag-tested", "the per-peer goroutine branches on useTrackedPeers", cl, nil, "", nil) {
			continue
		}
		vcs := callsTo(cl, verify)
		c.Min("C09.a", "Verify calls in the per-peer goroutine", len(vcs), 1)
		if len(vcs) != 1 {
			continue
		}
		vc := vcs[0]
		vT := ct.Of(vc)
		okArgs := strings.HasPrefix(ct.Of(vc.Call.Args[0]), "fv:reqParams.TrustedHead") && ct.Of(vc.Call.Args[1]) == first && cf.AtInstr(vc).Has(useTracked) && cf.AtInstr(vc).Has(an.EQ(reqErr, "nil"))
		c.Check(okArgs, "C09.a", "verify-args", "with a trusted head the received head is verified as Verify(TrustedHead, headers[0]) of a successful request", cl, vc, "", cf.AtInstr(vc))
		prT := cf.Prune(useTracked)
		an.Instrs(cl, func(in ssa.Instruction) {
			sd, isSend := in.(*ssa.Send)
			if !isSend || !strings.Contains(ct.Of(sd.Chan), "fv:headerRespCh") {
				return
			}
			nSend++
			lit, okL := structLit(sd.X)
			if !okL {
				c.Undecided("C09.a", "payload-shape", "the response payload is a struct literal {h, softErr}", cl, sd, "cannot resolve payload "+ct.Of(sd.X))
				return
			}
			hv, sv := lit["h"], lit["softErr"]
			hTerm, sTerm := "", ""
			if hv != nil {
				hTerm = ct.Of(hv)
			}
			if sv != nil {
				sTerm = ct.Of(sv)
			}
			fsT := prT.At(sd.Block()) // facts under the assumption "a trusted head was given"
			switch {
			case sv != nil:
				okS := sTerm == vT && hTerm == first && fsT.Has(an.NE(vT, "nil")) && fsT.Has(an.B("As("+vT+",*header.VerifyError)")) && hasSoftFact(fsT)
				c.Check(okS, "C09.a", "send-soft", "a soft error is sent only as the Verify error itself, under errors.As(*VerifyError) ∧ SoftFailure, together with the header it belongs to", cl, sd, "h="+hTerm+" softErr="+sTerm, fsT)
			case hTerm == first:
				okV := !prT.Reachable(sd.Block()) || fsT.Has(an.EQ(vT, "nil"))
				c.Check(okV && cf.AtInstr(sd).Has(an.EQ(reqErr, "nil")), "C09.a", "send-verified", "with a trusted head, a header without soft error is sent only if Verify against the trusted head returned nil", cl, sd, "h="+hTerm, fsT)
			case hv == nil || strings.Contains(hTerm, "fv:zero"):
				c.Ok("C09.a", "send-zero", "failing paths report the zero header", cl, sd, "h="+hTerm, cf.AtInstr(sd))
			default:
				c.Fail("C09.a", "send-other", "a per-peer goroutine reports headers[0] of its request or the zero header", cl, sd, "h="+hTerm, cf.AtInstr(sd))
			}
		})
		// each asked peer answers exactly once: the collecting loop reads one message per peer, a second
		// message from one peer pushes another peer's answer out of the count, a missing one blocks it
		{
			isAnswer := func(in ssa.Instruction) bool {
				sd, isSend := in.(*ssa.Send)
				return isSend && strings.Contains(ct.Of(sd.Chan), "fv:headerRespCh")
			}
			fl := an.Flow{Fn: cl}
			an.Instrs(cl, func(in ssa.Instruction) {
				if !isAnswer(in) {
					return
				}
				twice := false
				an.Instrs(cl, func(in2 ssa.Instruction) {
					if isAnswer(in2) && fl.CanReach(in, in2) {
						twice = true
					}
				})
				c.Check(!twice, "C09.c", "one-answer-per-peer", "a per-peer goroutine sends at most one answer (the collecting loop reads exactly one message per asked peer)", cl, in, "", nil)
			})
			for _, r := range cf.Returns() {
				c.Check(fl.MustPrecede(isAnswer, r), "C09.c", "answer-before-exit", "a per-peer goroutine sends its answer on every way out", cl, r, "", nil)
			}
		}
		// under a failed hard verification no non-zero header may be sent
		an.Instrs(cl, func(in ssa.Instruction) {
			sd, isSend := in.(*ssa.Send)
			if !isSend {
				return
			}
			lit, _ := structLit(sd.X)
			if lit == nil || lit["h"] == nil || ct.Of(lit["h"]) != first || lit["softErr"] != nil {
				return
			}
			prBad := cf.Prune(useTracked, an.NE(vT, "nil"))
			c.Check(!prBad.Reachable(sd.Block()), "C09.a", "no-unverified-header", "a header that failed verification against the trusted head is never reported as a plain header", cl, sd, "", nil)
		})
	}
	c.Min("C09.a", "payload sends of the per-peer goroutines", nSend, 4)
	// useTrackedPeers = !TrustedHead.IsZero()
	{
		okFlag := false
		an.Instrs(head, func(in ssa.Instruction) {
			st, isSt := in.(*ssa.Store)
			if !isSt {
				return
			}
			if al, isAl := st.Addr.(*ssa.Alloc); isAl && al.Comment == flagName {
				v := an.Stable(ht.Of(st.Val))
				okFlag = strings.HasPrefix(v, "!IsZero(") && strings.Contains(v, ".TrustedHead")
			}
		})
		c.Check(okFlag, "C09.a", "tracked-flag-def", "useTrackedPeers is exactly !TrustedHead.IsZero()", head, nil, "", nil)
	}

	// --- C09.b/c/d on the collecting loop
	var recv string // term of the received payload
	for _, f := range condFacts(ht) {
		if f.Op == "B" && strings.HasPrefix(f.A, "IsZero(*ssa.Select") && strings.HasSuffix(f.A, ".h)") {
			recv = strings.TrimSuffix(strings.TrimPrefix(f.A, "IsZero("), ".h)")
		}
	}
	if recv == "" {
		c.Undecided("C09.b", "recv", "Head collects the per-peer results from the response channel", head, nil, "no received payload found")
		return
	}
	hashT := "Hash.String(Hash(" + recv + ".h))"
	// map updates
	var counterMap, softMap string
	an.Instrs(head, func(in ssa.Instruction) {
		mu, isMU := in.(*ssa.MapUpdate)
		if !isMU {
			return
		}
		key, val := ht.Of(mu.Key), ht.Of(mu.Value)
		fs := hf.AtInstr(mu)
		if an.IsErrorType(mu.Value.Type()) {
			softMap = ht.Of(mu.Map)
			c.Check(key == hashT && val == recv+".softErr" && fs.Has(an.NE(recv+".softErr", "nil")) && fs.Has(an.NotB("IsZero("+recv+".h)")), "C09.b", "softerr-keyed-by-hash",
				"a soft error is recorded only under the hash of the header it was reported with", head, mu, "softErrs["+key+"] = "+val, fs)
		} else {
			counterMap = ht.Of(mu.Map)
			c.Check(key == hashT && fs.Has(an.NotB("IsZero("+recv+".h)")) && strings.HasSuffix(an.Stable(val), "+1)"), "C09.c", "counter-per-hash",
				"each non-zero answer increments the counter of its own hash by one", head, mu, "counter["+key+"] = "+val, fs)
		}
	})
	if counterMap == "" || softMap == "" {
		c.Fail("C09.b", "maps", "Head keeps a per-hash counter and a per-hash soft error", head, nil, "counter or softErrs update not found", nil)
		return
	}
	// quorum guard
	var quorum *an.Fact
	var peersLen string
	for _, b := range head.Blocks {
		iff, isIf := b.Instrs[len(b.Instrs)-1].(*ssa.If)
		if !isIf {
			continue
		}
		bo, isBO := iff.Cond.(*ssa.BinOp)
		if !isBO {
			continue
		}
		for _, side := range []ssa.Value{bo.X, bo.Y} {
			if call, isCall := side.(*ssa.Call); isCall && an.StaticCallee(&call.Call) == minHead {
				f := ht.Cond(iff.Cond)
				quorum = &f
				peersLen = ht.Of(call.Call.Args[0])
			}
		}
	}
	if !c.Check(quorum != nil, "C09.c", "quorum-guard", "the early return is guarded by a comparison with minHeadResponses(...)", head, nil, "", nil) {
		return
	}
	// shape: ¬LT(counter[hash], minHead(len(peers)))  i.e. counter >= q
	okQ := quorum.Op == "LT" && !quorum.Pos && strings.HasPrefix(quorum.A, counterMap+"["+hashT+"]") && strings.HasPrefix(quorum.B, "call:") && strings.Contains(quorum.B, "minHeadResponses")
	c.Check(okQ, "C09.c", "quorum-operands", "the quorum test compares the counter of the hash just received with minHeadResponses", head, nil, quorum.String(), nil)
	// asked peers: the slice the goroutines were spawned over
	askedOK := false
	for _, l := range indexLoops(ht) {
		for _, e := range l.Elems {
			if e.Referrers() == nil {
				continue
			}
			for _, r := range *e.Referrers() {
				if g, isGo := r.(*ssa.Go); isGo && len(g.Call.Args) > 0 && g.Call.Args[0] == ssa.Value(e) {
					askedOK = peersLen == "len("+ht.Of(l.Slice)+")"
				}
			}
		}
	}
	c.Check(askedOK, "C09.c", "quorum-of-asked-peers", "the quorum is computed from the number of peers that were actually asked", head, nil, "minHeadResponses("+peersLen+")", nil)

	// the peers asked: the trusted peers, and the tracked (untrusted) ones only when a trusted head was
	// given — the very condition under which the per-peer goroutines verify what they receive
	{
		nTracked := 0
		an.Instrs(head, func(in ssa.Instruction) {
			call, isCall := in.(*ssa.Call)
			if !isCall {
				return
			}
			cal := an.StaticCallee(&call.Call)
			if cal == nil || an.FuncName(cal) != "p2p.(*peerTracker).getPeers" {
				return
			}
			nTracked++
			withTrusted := false
			for _, f := range hf.AtInstr(call) {
				if f.Op == "B" && strings.Contains(f.A, ".TrustedHead") &&
					((f.Pos && strings.HasPrefix(f.A, "!IsZero(")) || (!f.Pos && strings.HasPrefix(f.A, "IsZero("))) {
					withTrusted = true
				}
			}
			c.Check(withTrusted, "C09.a", "tracked-peers-only-with-trusted-head", "the tracked (untrusted) peers are asked only when a trusted head was given to verify their answers against", head, call, "", hf.AtInstr(call))
		})
		c.Min("C09.a", "uses of the tracked peers in Head", nTracked, 1)
		// the collection of answers starts empty (a pre-sized slice would carry zero headers into the
		// fallback, which returns its maximum with a nil error)
		nColl := 0
		an.Instrs(head, func(in ssa.Instruction) {
			ms, isMS := in.(*ssa.MakeSlice)
			if !isMS {
				return
			}
			sl, isSl := ms.Type().Underlying().(*types.Slice)
			if !isSl || sl.Elem().String() != "H" {
				return
			}
			nColl++
			k, isK := ms.Len.(*ssa.Const)
			c.Check(isK && k.Value != nil && k.Value.ExactString() == "0", "C09.d", "collection-starts-empty", "the slice the answers are collected in starts with length 0", head, ms, "len "+ht.Of(ms.Len), nil)
		})
		c.Min("C09.d", "collections of answers in Head", nColl, 1)
	}
	nQuorum, nFallback, nEmpty := 0, 0, 0
	for _, r := range hf.Returns() {
		fs := hf.AtInstr(r)
		r0, r1 := ht.Of(r.Results[0]), ht.Of(ht.Deref(r.Results[1]))
		sh := ht.ErrShape(errResult(r))
		switch {
		case r0 == recv+".h":
			nQuorum++
			okR := strings.HasPrefix(r1, softMap+"["+hashT+"]") && fs.Has(*quorum) && fs.Has(an.NotB("IsZero("+recv+".h)"))
			checkEveryAnswerTallied(c, "C09.b", head)
			c.Check(okR, "C09.b", "quorum-return-pair", "the quorum return yields the agreed header together with the soft error recorded for exactly that header, only once the quorum is reached", head, r, "returns ("+r0+", "+r1+")", fs)
		case sh == "S:header.ErrNotFound":
			nEmpty++
			emptyFact := false
			for _, f := range fs {
				if f.Op == "EQ" && f.Pos && ((f.A == "0" && strings.HasPrefix(f.B, "len(")) || (f.B == "0" && strings.HasPrefix(f.A, "len("))) {
					emptyFact = true
				}
			}
			c.Check(emptyFact, "C09.b", "nothing-collected",
				"ErrNotFound (with a zero header) is returned when no peer supplied a header", head, r, "returns ("+r0+", "+sh+")", fs)
		case strings.HasSuffix(an.Stable(r0), "[0]"):
			nFallback++
			base := strings.TrimSuffix(r0, "[0]")
			okR := strings.HasPrefix(r1, softMap+"[Hash.String(Hash("+r0+"))]")
			// sorted descending before
			var sortCall *ssa.Call
			okSort := (an.Flow{Fn: head}).MustPrecede(func(in ssa.Instruction) bool {
				call, isCall := in.(*ssa.Call)
				if isCall && an.StaticFullName(&call.Call) == "sort.Slice" {
					sortCall = call
					return true
				}
				return false
			}, r)
			okLess := false
			if okSort && sortCall != nil {
				if mc, isMC := sortCall.Call.Args[1].(*ssa.MakeClosure); isMC {
					okLess = lessDescendingByHeight(c, mc.Fn.(*ssa.Function))
				}
				okSort = ht.Of(an.Unwrap(sortCall.Call.Args[0])) == base
			}
			c.Check(okR, "C09.b", "fallback-return-pair", "the fallback returns the chosen header together with the soft error recorded for exactly that header", head, r, "returns ("+r0+", "+r1+")", fs)
			c.Check(okSort && okLess, "C09.d", "fallback-highest", "without quorum the collected heads are sorted descending by Height() and the first (highest) is returned", head, r, "", nil)
			nonEmpty := false
			for _, f := range fs {
				if f.Op == "EQ" && !f.Pos && (f.A == "0" && f.B == "len("+base+")" || f.B == "0" && f.A == "len("+base+")") {
					nonEmpty = true
				}
			}
			c.Check(nonEmpty, "C09.d", "fallback-nonempty", "element 0 is taken only from a non-empty collection", head, r, "", fs)
		case sh == "nil" || strings.HasPrefix(r1, softMap+"["):
			// the fallback written as a single pass: a running maximum over the collected heads
			hi, isPhi := ht.Deref(r.Results[0]).(*ssa.Phi)
			if !isPhi {
				break
			}
			nFallback++
			hiT := ht.Of(hi)
			base, okMax, why := "", true, ""
			for i, e := range hi.Edges {
				pred := hi.Block().Preds[i]
				if !hf.Dominates(hi.Block(), pred) {
					// start value: the first collected head
					et := ht.Of(e)
					if !strings.HasSuffix(an.Stable(et), "[0]") {
						okMax, why = false, "the running value does not start at element 0"
					}
					base = strings.TrimSuffix(et, "[0]")
					continue
				}
				// carried value: the running one, or a head strictly above THE RUNNING ONE
				var leaves func(v ssa.Value, fs an.FactSet, depth int)
				leaves = func(v ssa.Value, fs an.FactSet, depth int) {
					if v == ssa.Value(hi) {
						return
					}
					if p2, ok := v.(*ssa.Phi); ok && depth < 3 {
						for _, pe := range hf.PhiOperands(p2) {
							leaves(pe.Val, pe.Facts, depth+1)
						}
						return
					}
					vt := ht.Of(v)
					if !(fs.Has(an.LT("Height("+hiT+")", "Height("+vt+")")) || fs.Has(an.GE("Height("+vt+")", "Height("+hiT+")"))) {
						okMax, why = false, "a head replaces the running value without being compared with it: "+an.Stable(vt)
					}
				}
				leaves(e, hf.EdgeFacts(pred, hi.Block()), 0)
			}
			okR := strings.HasPrefix(r1, softMap+"[Hash.String(Hash("+r0+"))]")
			c.Check(okR, "C09.b", "fallback-return-pair", "the fallback returns the chosen header together with the soft error recorded for exactly that header", head, r, "returns ("+r0+", "+r1+")", fs)
			c.Check(okMax && base != "", "C09.d", "fallback-highest", "without quorum the highest of the collected heads is returned (a running maximum: a head replaces the running value only when it is above it)", head, r, why, nil)
			nonEmpty := false
			for _, f := range fs {
				if f.Op == "EQ" && !f.Pos && (f.A == "0" && f.B == "len("+base+")" || f.B == "0" && f.A == "len("+base+")") {
					nonEmpty = true
				}
			}
			c.Check(nonEmpty, "C09.d", "fallback-nonempty", "element 0 is taken only from a non-empty collection", head, r, "", fs)
		}
	}
	c.Min("C09.b", "quorum returns", nQuorum, 1)
	c.Min("C09.b", "fallback returns", nFallback, 1)
	c.Min("C09.b", "not-found returns", nEmpty, 1)

	// --- C09.c minHeadResponses(n) = n for n <= 2
	mt, mf := c.T(minHead), c.F(minHead)
	pr := mf.Prune(an.LE("p0", "2"))
	n := 0
	for _, r := range pr.Returns() {
		n++
		c.Check(mt.Of(r.Results[0]) == "p0", "C09.c", "small-quorum", "for one or two asked peers all of them must agree (minHeadResponses(n) = n for n ≤ 2)", minHead, r, "returns "+mt.Of(r.Results[0]), nil)
	}
	// for n ≥ 3: at least two thirds (3q ≥ 2n) and reachable (q ≤ n), proven with the division axioms of the prover
	prBig := mf.Prune(an.GT("p0", "2"))
	nBig := 0
	for _, r := range prBig.Returns() {
		nBig++
		q := mt.Affine(r.Results[0])
		n0 := an.Var("p0", false)
		three := func(a *an.Affine) *an.Affine { return a.Add(a).Add(a) }
		fs := append(an.FactSet{}, prBig.AtInstr(r)...)
		if !fs.Has(an.GT("p0", "2")) {
			fs = append(fs, an.GT("p0", "2"))
		}
		twoThirds := prBig.ProveGEFacts(fs, three(q), n0.Add(n0), 0)
		reachable := prBig.ProveGEFacts(fs, three(n0), three(q), 0)
		c.Check(twoThirds, "C09.c", "quorum-at-least-two-thirds", "for three or more asked peers the quorum q satisfies 3q ≥ 2n (at least two thirds), proven from the arithmetic of the returned expression", minHead, r, "q = "+mt.Of(r.Results[0]), fs)
		c.Check(reachable, "C09.c", "quorum-reachable", "the quorum never exceeds the number of asked peers (q ≤ n)", minHead, r, "q = "+mt.Of(r.Results[0]), fs)
	}
	c.Min("C09.c", "quorum results for n ≥ 3", nBig, 1)
	small := false
	for _, f := range condFacts(mt) {
		if f == an.LE("p0", "2") || f == an.GT("p0", "2") || f == an.LT("p0", "3") || f == an.GE("p0", "3") {
			small = true
		}
	}
	c.Check(small && n >= 1, "C09.c", "small-quorum-guard", "minHeadResponses distinguishes n ≤ 2 from n ≥ 3", minHead, nil, "", nil)
}

func hasSoftFact(fs an.FactSet) bool {
	for _, f := range fs {
		if f.Op == "B" && f.Pos && strings.Contains(f.A, ".SoftFailure") {
			return true
		}
	}
	return false
}
