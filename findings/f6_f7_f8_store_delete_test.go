package store

// Demonstrations for findings F6, F7 (properties C08, C14) and F8 (property C04).
// Copy into /repo/store and run: go test ./store -run 'TestF6|TestF7|TestF8' -count=1
//
// F6: a header that is still in the pending write batch is skipped by
//     DeleteRange (index lookup misses → counted as "missing"), stays readable
//     and is written to disk by the next flush.
// F7: deleting the whole store only drops the head/tail pointers: every header
//     stays readable by hash and is found again on disk; OnDelete handlers are
//     never called.
// F8: a head-side DeleteRange lowers Head() but not Height().

import (
	"context"
	"testing"
	"time"

	"github.com/ipfs/go-datastore"
	"github.com/ipfs/go-datastore/sync"
	"github.com/stretchr/testify/require"

	"github.com/celestiaorg/go-header/headertest"
)

func TestF6_DeleteRangeRemovesUnflushedHeaders(t *testing.T) {
	ctx, cancel := context.WithTimeout(context.Background(), 5*time.Second)
	t.Cleanup(cancel)
	suite := headertest.NewTestSuite(t)
	ds := sync.MutexWrap(datastore.NewMapDatastore())
	store := NewTestStore(t, ctx, ds, suite.Head(), WithWriteBatchSize(100)) // nothing gets flushed

	hs := suite.GenDummyHeaders(10)
	require.NoError(t, store.Append(ctx, hs...))
	require.NoError(t, store.Sync(ctx))

	var handled []uint64
	store.OnDelete(func(_ context.Context, h uint64) error { handled = append(handled, h); return nil })

	tail, err := store.Tail(ctx)
	require.NoError(t, err)
	to := tail.Height() + 5
	require.NoError(t, store.DeleteRange(ctx, tail.Height(), to))

	for h := tail.Height(); h < to; h++ {
		got, err := store.getByHeight(ctx, h)
		require.Error(t, err, "height %d still readable after DeleteRange returned nil: %v", h, got)
	}
	require.Len(t, handled, 5, "OnDelete handlers must run for every removed header")
}

func TestF7_DeleteWholeStoreRemovesHeaders(t *testing.T) {
	ctx, cancel := context.WithTimeout(context.Background(), 5*time.Second)
	t.Cleanup(cancel)
	suite := headertest.NewTestSuite(t)
	ds := sync.MutexWrap(datastore.NewMapDatastore())
	store := NewTestStore(t, ctx, ds, suite.Head(), WithWriteBatchSize(5))

	hs := suite.GenDummyHeaders(20)
	require.NoError(t, store.Append(ctx, hs...))
	require.NoError(t, store.Sync(ctx))
	time.Sleep(100 * time.Millisecond)

	calls := 0
	store.OnDelete(func(context.Context, uint64) error { calls++; return nil })

	head, err := store.Head(ctx)
	require.NoError(t, err)
	tail, err := store.Tail(ctx)
	require.NoError(t, err)
	require.NoError(t, store.DeleteRange(ctx, tail.Height(), head.Height()+1))

	for _, h := range hs {
		_, err := store.Get(ctx, h.Hash())
		require.Error(t, err, "header %d still readable by hash after the whole store was deleted", h.Height())
	}
	require.Equal(t, int(head.Height()-tail.Height()+1), calls, "OnDelete handlers must run for every removed header")
}

func TestF8_HeightFollowsHeadAfterHeadSideDelete(t *testing.T) {
	ctx, cancel := context.WithTimeout(context.Background(), 5*time.Second)
	t.Cleanup(cancel)
	suite := headertest.NewTestSuite(t)
	ds := sync.MutexWrap(datastore.NewMapDatastore())
	store := NewTestStore(t, ctx, ds, suite.Head(), WithWriteBatchSize(5))

	require.NoError(t, store.Append(ctx, suite.GenDummyHeaders(10)...))
	require.NoError(t, store.Sync(ctx))
	time.Sleep(100 * time.Millisecond)

	head, err := store.Head(ctx)
	require.NoError(t, err)
	require.NoError(t, store.DeleteRange(ctx, head.Height()-3, head.Height()+1))

	newHead, err := store.Head(ctx)
	require.NoError(t, err)
	require.EqualValues(t, head.Height()-4, newHead.Height())
	require.Equal(t, newHead.Height(), store.Height(), "Height() must equal Head().Height()")
}
