package selftest

func init() {
	const st = "store/store.go"
	add(
		Variant{Prop: "C06", Name: "head-pointer-written-directly", File: st, Expect: "C06.a",
			Old: "\tif err := writeHeaderHashTo(ctx, batch, head, headKey); err != nil {\n\t\treturn err\n\t}\n\ttail := *s.tailHeader.Load()", New: "\tif err := writeHeaderHashTo(ctx, s.ds, head, headKey); err != nil {\n\t\treturn err\n\t}\n\ttail := *s.tailHeader.Load()"},
		Variant{Prop: "C06", Name: "tail-pointer-not-flushed", File: st, Expect: "C06.a",
			Old: "\ttail := *s.tailHeader.Load()\n\tif err := writeHeaderHashTo(ctx, batch, tail, tailKey); err != nil {\n\t\treturn err\n\t}\n", New: ""},
		Variant{Prop: "C06", Name: "index-outside-batch", File: st, Expect: "C06.a",
			Old: "\tif err := indexTo(ctx, batch, headers...); err != nil {\n\t\treturn err\n\t}\n\n\t// finally, commit the batch on disk\n\treturn batch.Commit(ctx)", New: "\t// finally, commit the batch on disk\n\tif err := batch.Commit(ctx); err != nil {\n\t\treturn err\n\t}\n\tb2, err := s.ds.Batch(ctx)\n\tif err != nil {\n\t\treturn err\n\t}\n\tif err := indexTo(ctx, b2, headers...); err != nil {\n\t\treturn err\n\t}\n\treturn b2.Commit(ctx)"},
		Variant{Prop: "C06", Name: "commit-despite-failed-index", File: st, Expect: "C06.a",
			Old: "\tif err := indexTo(ctx, batch, headers...); err != nil {\n\t\treturn err\n\t}", New: "\tif err := indexTo(ctx, batch, headers...); err != nil {\n\t\tlog.Errorw(\"indexing\", \"err\", err)\n\t}"},
		Variant{Prop: "C06", Name: "no-commit", File: st, Expect: "C06.a",
			Old: "\t// finally, commit the batch on disk\n\treturn batch.Commit(ctx)", New: "\treturn nil"},
		Variant{Prop: "C06", Name: "reset-despite-failed-flush", File: st, Expect: "C06.b",
			Old: "\t\t\terr := s.flush(ctx, toFlush...)\n\t\t\tif err == nil {\n\t\t\t\tbreak\n\t\t\t}", New: "\t\t\terr := s.flush(ctx, toFlush...)\n\t\t\tif err == nil || i > 10 {\n\t\t\t\tbreak\n\t\t\t}"},
		Variant{Prop: "C06", Name: "flushes-only-new-headers", File: st, Expect: "C06.b",
			Old: "\t\t\terr := s.flush(ctx, toFlush...)", New: "\t\t\terr := s.flush(ctx, headers...)"},
		Variant{Prop: "C06", Name: "stop-does-not-wait", File: st, Expect: "C06.c",
			Old: "\t// wait till it is done writing\n\tselect {\n\tcase <-s.writesDn:\n\tcase <-ctx.Done():\n\t\treturn ctx.Err()\n\t}\n", New: ""},
		Variant{Prop: "C06", Name: "sentinel-tested-before-flush", File: st, Expect: "C06.c",
			Old: "\t\tcase headers := <-s.writes:\n\t\t\tflush(headers)\n\t\t\tif headers == nil {\n\t\t\t\t// a signal to stop\n\t\t\t\treturn\n\t\t\t}\n\t\t}", New: "\t\tcase headers := <-s.writes:\n\t\t\tif headers == nil {\n\t\t\t\t// a signal to stop\n\t\t\t\treturn\n\t\t\t}\n\t\t\tflush(headers)\n\t\t}"},
		Variant{Prop: "C06", Name: "sentinel-skips-small-batch", File: st, Expect: "C06.c",
			Old: "\t\tif s.pending.Len() < s.Params.WriteBatchSize && headers != nil {", New: "\t\tif s.pending.Len() < s.Params.WriteBatchSize {"},
		Variant{Prop: "C06", Name: "dangling-pointer-kept", File: st, Expect: "C06.d",
			Old: "\t\tif errors.Is(err, header.ErrNotFound) {\n\t\t\tderr := s.ds.Delete(ctx, key)", New: "\t\tif errors.Is(err, datastore.ErrNotFound) {\n\t\t\tderr := s.ds.Delete(ctx, key)"},
		Variant{Prop: "C06", Name: "init-ignores-read-errors", File: st, Expect: "C06.d",
			Old: "\thead, err := s.readByKey(ctx, headKey)\n\tif err != nil && !errors.Is(err, header.ErrNotFound) {\n\t\treturn fmt.Errorf(\"reading headKey: %w\", err)\n\t}", New: "\thead, err := s.readByKey(ctx, headKey)\n\tif err != nil && !errors.Is(err, header.ErrNotFound) {\n\t\tlog.Errorw(\"reading headKey\", \"err\", err)\n\t}"},
		Variant{Prop: "C06", Name: "init-fails-on-dangling", File: st, Expect: "C06.d",
			Old: "\ttail, err := s.readByKey(ctx, tailKey)\n\tif err != nil && !errors.Is(err, header.ErrNotFound) {", New: "\ttail, err := s.readByKey(ctx, tailKey)\n\tif err != nil {"},
		// benign
		Variant{Prop: "C06", Name: "benign-retry-cond-commuted", File: st,
			Old: "\t\t\terr := s.flush(ctx, toFlush...)\n\t\t\tif err == nil {\n\t\t\t\tbreak\n\t\t\t}", New: "\t\t\terr := s.flush(ctx, toFlush...)\n\t\t\tif nil == err {\n\t\t\t\tbreak\n\t\t\t}"},
		Variant{Prop: "C06", Name: "benign-sentinel-cond-commuted", File: st,
			Old: "\t\tif s.pending.Len() < s.Params.WriteBatchSize && headers != nil {", New: "\t\tif headers != nil && s.pending.Len() < s.Params.WriteBatchSize {"},
		// the reset moved into flush: after a successful Commit it is the same behaviour, after any Commit it drops headers
		Variant{Prop: "C06", Name: "benign-reset-inside-flush-after-successful-commit", File: st,
			Old: "\t// finally, commit the batch on disk\n\treturn batch.Commit(ctx)\n}", New: "\t// finally, commit the batch on disk\n\tif err := batch.Commit(ctx); err != nil {\n\t\treturn err\n\t}\n\ts.pending.Reset()\n\treturn nil\n}",
			More: []Edit{{File: st, Old: "\t\t// reset pending\n\t\ts.pending.Reset()\n", New: ""}}},
		Variant{Prop: "C06", Name: "seed-reset-inside-flush-after-any-commit", File: st, Expect: "C06.b",
			Old: "\t// finally, commit the batch on disk\n\treturn batch.Commit(ctx)\n}", New: "\t// finally, commit the batch on disk\n\terr = batch.Commit(ctx)\n\ts.pending.Reset()\n\treturn err\n}",
			More: []Edit{{File: st, Old: "\t\t// reset pending\n\t\ts.pending.Reset()\n", New: ""}}},
		Variant{Prop: "C12", Name: "seed-reset-inside-flush-after-any-commit", File: st, Expect: "C12.f",
			Old: "\t// finally, commit the batch on disk\n\treturn batch.Commit(ctx)\n}", New: "\t// finally, commit the batch on disk\n\terr = batch.Commit(ctx)\n\ts.pending.Reset()\n\treturn err\n}",
			More: []Edit{{File: st, Old: "\t\t// reset pending\n\t\ts.pending.Reset()\n", New: ""}}},
	)
}
