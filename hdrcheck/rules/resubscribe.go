package rules

import (
	"go/token"
	"go/types"

	"golang.org/x/tools/go/ssa"

	"hdrcheck/an"
)

// checkLookupAfterSubscription (C12.a, finding F18): "returns the header as soon as it has been
// appended, no matter how the append interleaves with the call … and whether or not the header is
// contiguous with Head". A header appended above a gap does not raise the published height; it only
// notifies the waiters registered at that moment, and notifications are not kept. Between a reader's
// lookup and its registration such an append is therefore invisible to the height re-check under the
// lock. The reader has to look the header up once more AFTER it is registered:
//   - the waiting function takes a check, runs it (when given) after the registration and before it
//     blocks, and does not block when the check says the header is there (it returns the elapsed-height
//     signal, which makes GetByHeight read the header);
//   - GetByHeight hands it a check that looks the same height up with the lookup function and reports
//     whether that succeeded.
func checkLookupAfterSubscription(c *an.Ctx, id string, gbh, lookup, wait *ssa.Function) {
	rule := "a reader looks its height up again once its subscription is registered and does not park when the header is there (a gapped append between the first lookup and the registration notifies nobody)"
	// the check parameter of the waiting function
	var check *ssa.Parameter
	for _, p := range wait.Params {
		if sig, ok := p.Type().Underlying().(*types.Signature); ok && sig.Params().Len() == 0 && sig.Results().Len() == 1 {
			check = p
		}
	}
	if !c.Check(check != nil, id, "lookup-after-subscription", rule, wait, nil, "the waiting function takes no check to run after the registration", nil) {
		return
	}
	wt, wf := c.T(wait), c.F(wait)
	pterm := wt.Of(check)
	var cbCalls []*ssa.Call
	an.Instrs(wait, func(in ssa.Instruction) {
		if call, ok := in.(*ssa.Call); ok && call.Call.Value == ssa.Value(check) {
			cbCalls = append(cbCalls, call)
		}
	})
	isCB := func(in ssa.Instruction) bool {
		call, ok := in.(*ssa.Call)
		return ok && call.Call.Value == ssa.Value(check)
	}
	isReg := func(in ssa.Instruction) bool {
		switch x := in.(type) {
		case *ssa.MapUpdate:
			if u, ok := x.Map.(*ssa.UnOp); ok {
				if fa, isFA := u.X.(*ssa.FieldAddr); isFA && fieldName(fa) == "heightSubs" {
					return true
				}
			}
		case *ssa.Store:
			if fa, ok := x.Addr.(*ssa.FieldAddr); ok && isFieldOf(fa, nil, "count") {
				if b, isB := x.Val.(*ssa.BinOp); isB && b.Op == token.ADD {
					return true
				}
			}
		}
		return false
	}
	given := wf.Prune(an.NE(pterm, "nil"))
	fl := an.Flow{Fn: wait, Skip: given.Removed}
	nSel := 0
	an.Instrs(wait, func(in ssa.Instruction) {
		sel, ok := in.(*ssa.Select)
		if !ok || !sel.Blocking {
			return
		}
		nSel++
		okOrder := len(cbCalls) > 0 && fl.MustPrecede(isCB, sel)
		for _, cb := range cbCalls {
			okOrder = okOrder && (an.Flow{Fn: wait}).MustPrecede(isReg, cb)
		}
		c.Check(okOrder, id, "lookup-after-subscription", rule, wait, sel, "", nil)
		// the header is there: no parking, the elapsed-height signal is returned
		for _, cb := range cbCalls {
			there := wf.Prune(an.NE(pterm, "nil"), an.B(wt.Of(cb)))
			okNoPark := !there.Reachable(sel.Block())
			n := 0
			for _, r := range there.Returns() {
				if !(an.Flow{Fn: wait, Skip: there.Removed}).CanReach(cb, r) {
					continue
				}
				n++
				okNoPark = okNoPark && wt.ErrShape(errResult(r)) == "S:store.errElapsedHeight"
			}
			c.Check(okNoPark && n > 0, id, "stored-header-not-awaited", "when the check after the registration finds the header the reader does not park: the elapsed-height signal is returned", wait, cb, "", nil)
		}
	})
	c.Min(id, "parking points of the waiting function", nSel, 1)
	// GetByHeight's check: the lookup of the same height, success reported
	gt := c.T(gbh)
	for _, w := range callsTo(gbh, wait) {
		idx := -1
		for i, p := range wait.Params {
			if p == check {
				idx = i
			}
		}
		okArg := false
		detail := "no function literal"
		if idx >= 0 && idx < len(w.Call.Args) {
			if mc, ok := w.Call.Args[idx].(*ssa.MakeClosure); ok {
				if cl, isFn := mc.Fn.(*ssa.Function); isFn {
					ct, cf := c.T(cl), c.F(cl)
					detail = "the literal does not report the lookup of the requested height"
					for _, lc := range callsTo(cl, lookup) {
						// the height looked up is the requested one (captured parameter)
						sameHeight := false
						if len(lc.Call.Args) >= 3 {
							if u, isU := lc.Call.Args[2].(*ssa.UnOp); isU {
								if fv, isFV := u.X.(*ssa.FreeVar); isFV && fv.Name() == gbh.Params[2].Name() {
									sameHeight = true
								}
							}
							if fv, isFV := lc.Call.Args[2].(*ssa.FreeVar); isFV && fv.Name() == gbh.Params[2].Name() {
								sameHeight = true
							}
						}
						okRet := true
						nRet := 0
						for _, r := range cf.Returns() {
							nRet++
							v := r.Results[0]
							f := ct.Cond(v)
							// returns (err == nil) of that lookup: as a comparison, or as constants under its branches
							found := an.EQ(ct.Of(lc)+"#1", "nil")
							switch k, isK := v.(*ssa.Const); {
							case f == found || f == an.EQ("nil", ct.Of(lc)+"#1"):
							case isK && k.Value != nil && k.Value.ExactString() == "true" && cf.AtInstr(r).Has(found):
							case isK && k.Value != nil && k.Value.ExactString() == "false" && cf.AtInstr(r).Has(found.Neg()):
							default:
								okRet = false
							}
						}
						if sameHeight && okRet && nRet > 0 {
							okArg = true
						}
					}
				}
			}
		}
		_ = gt
		c.Check(okArg, id, "subscription-check-is-the-lookup", "the check GetByHeight hands to the waiting function looks the requested height up and reports whether the header was found", gbh, w, detail, nil)
	}
}
