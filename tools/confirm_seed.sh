#!/bin/bash
# confirm_seed.sh <patch.diff> <demo_test.go> <package-dir-relative-to-repo> [test-run-regex]
# Confirms a seeded change in a scratch worktree (never in /repo):
#   demo passes on the clean tree, change applies and builds, demo fails with the change,
#   the whole existing suite passes with the change (demo removed).
# Then applies the change to /repo, runs every check, and undoes it straight afterwards.
set -u
PATCH=$1; DEMO=$2; PKG=$3; RUN=${4:-.}
WT=/tmp/confirm_wt
git -C /repo worktree remove --force $WT >/dev/null 2>&1
git -C /repo worktree add -q --detach $WT HEAD || exit 2
res() { echo "RESULT $1=$2"; }
cp "$DEMO" $WT/$PKG/zz_seed_demo_test.go
(cd $WT && go test -count=1 -run "$RUN" ./$PKG >/tmp/confirm_clean.log 2>&1) && res demo_clean pass || res demo_clean FAIL
if git -C $WT apply "$PATCH" 2>/tmp/confirm_apply.log; then res apply ok; else res apply FAIL; cat /tmp/confirm_apply.log; fi
(cd $WT && go build ./... >/tmp/confirm_build.log 2>&1) && res build ok || res build FAIL
(cd $WT && go test -count=1 -run "$RUN" ./$PKG >/tmp/confirm_changed.log 2>&1) && res demo_changed PASS-unexpected || res demo_changed fail-as-expected
rm -f $WT/$PKG/zz_seed_demo_test.go
(cd $WT && go test -count=1 ./... >/tmp/confirm_suite.log 2>&1) && res suite pass || { res suite FAIL; grep -E "^(--- FAIL|FAIL|panic)" /tmp/confirm_suite.log | head; }
git -C /repo worktree remove --force $WT >/dev/null 2>&1
# checks against /repo itself
if [ -n "$(git -C /repo status --porcelain)" ]; then echo "REPO NOT CLEAN"; exit 2; fi
git -C /repo apply "$PATCH" || exit 2
/verif/bin/hdrcheck -property all -verif /tmp/seed_verif 2>&1 | grep -E "VIOLATED|UNDECIDED|LOAD ERROR" | sed 's/^ */DETECT /' | sort | uniq
git -C /repo checkout -- .
[ -z "$(git -C /repo status --porcelain)" ] && echo "repo restored" || echo "REPO NOT RESTORED"
