package selftest

// Variants for the clauses that came out of the mutation analysis of the waiting function.
func init() {
	const st = "store/store.go"
	const hs = "store/heightsub.go"
	add(
		Variant{Prop: "C12", Name: "lock-free-precheck-inverted", File: hs, Expect: "C12.b",
			Old: "func (hs *heightSub) wait(ctx context.Context, height uint64, stored func() bool) error {\n\tif hs.Height() >= height {", New: "func (hs *heightSub) wait(ctx context.Context, height uint64, stored func() bool) error {\n\tif hs.Height() < height {"},
		Variant{Prop: "C12", Name: "shared-signal-closed-while-others-wait", File: hs, Expect: "C12.b",
			Old: "\tif all || sac.count == 0 {", New: "\tif all || sac.count != 0 {"},
		Variant{Prop: "C12", Name: "head-shortcut-for-any-height", File: st, Expect: "C12.a",
			Old: "\tif !head.IsZero() && head.Height() == height {\n\t\treturn head, nil\n\t}\n\n\ttail, _ := s.Tail(ctx)", New: "\tif !head.IsZero() && head.Height() <= height {\n\t\treturn head, nil\n\t}\n\n\ttail, _ := s.Tail(ctx)"},
		Variant{Prop: "C12", Name: "benign-shortcut-condition-commuted", File: st,
			Old: "\tif !head.IsZero() && head.Height() == height {\n\t\treturn head, nil\n\t}\n\n\ttail, _ := s.Tail(ctx)", New: "\tif height == head.Height() && !head.IsZero() {\n\t\treturn head, nil\n\t}\n\n\ttail, _ := s.Tail(ctx)"},
		Variant{Prop: "C12", Name: "benign-release-condition-as-switch", File: hs,
			Old: "\tif all || sac.count == 0 {\n\t\tclose(sac.signal)\n\t\tdelete(hs.heightSubs, height)\n\t}", New: "\tswitch {\n\tcase all, sac.count == 0:\n\t\tclose(sac.signal)\n\t\tdelete(hs.heightSubs, height)\n\t}"},
	)
}
