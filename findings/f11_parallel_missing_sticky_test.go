package store

// Demonstration for finding F11 (property C08, also C14).
// Copy into /repo/store and run: go test ./store -run 'TestF11' -count=1
//
// F11: the worker loop of deleteParallel classifies "this header is already
//      missing" (errHeaderMissing) like deleteSequential does — it counts the
//      header and goes on — but unlike its sequential sibling it leaves the
//      error in last.err. When the LAST job a worker handles is a missing
//      header, the worker therefore finishes with a non-nil error: it closes
//      errCh, and the evaluation of the results reports the whole deletion as
//      failed at that (missing) height. DeleteRange then tries to move the tail
//      to a height that is not stored, fails at that too, and leaves the tail
//      pointer at `from`, whose header has just been deleted.
//      Missing headers inside a tail-side range are exactly what a retry after a
//      partial parallel deletion sees (the other workers went on deleting above
//      the failed height), so "retrying a tail-side deletion completes it" and
//      "Tail still resolves to a stored header" both break.
//      Found while reading the code with two bug seeders' side remarks in hand;
//      the parallel-protocol rule (worker-loop clause) now decides it.

import (
	"context"
	"errors"
	"sync/atomic"
	"testing"
	"time"

	"github.com/ipfs/go-datastore"
	"github.com/ipfs/go-datastore/sync"
	"github.com/stretchr/testify/require"

	"github.com/celestiaorg/go-header/headertest"
)

func TestF11_ParallelRetryOverHolesCompletes(t *testing.T) {
	ctx, cancel := context.WithTimeout(context.Background(), 60*time.Second)
	t.Cleanup(cancel)
	suite := headertest.NewTestSuite(t)
	ds := sync.MutexWrap(datastore.NewMapDatastore())
	store := NewTestStore(t, ctx, ds, suite.Head(), WithWriteBatchSize(1000))

	const total = 11000
	require.NoError(t, store.Append(ctx, suite.GenDummyHeaders(total)...))
	require.NoError(t, store.Sync(ctx))

	tail, err := store.Tail(ctx)
	require.NoError(t, err)
	from, to := tail.Height(), tail.Height()+10500

	// the handler vetoes the very first header once, and only after the other workers have got
	// to the end of the range: everything above the vetoed header is deleted by then
	var vetoed, seen atomic.Bool
	lastSeen := make(chan struct{})
	store.OnDelete(func(_ context.Context, h uint64) error {
		if h == to-1 && seen.CompareAndSwap(false, true) {
			close(lastSeen)
		}
		if h == from && vetoed.CompareAndSwap(false, true) {
			<-lastSeen
			time.Sleep(300 * time.Millisecond)
			return errors.New("not now")
		}
		return nil
	})

	err = store.DeleteRange(ctx, from, to)
	require.Error(t, err, "the vetoed header makes the first attempt fail")
	newTail, err := store.Tail(ctx)
	require.NoError(t, err)
	require.Equal(t, from, newTail.Height(), "the tail stays at the vetoed header")

	// some headers above it are gone already: the retry runs over a range with holes
	holes := 0
	for h := from + 1; h < to; h++ {
		if _, err := store.GetByHeight(ctx, h); err != nil {
			holes++
		}
	}
	require.NotZero(t, holes, "the first attempt deleted headers above the vetoed one")

	// retrying the tail-side deletion completes it
	err = store.DeleteRange(ctx, from, to)
	require.NoError(t, err, "a retry over already deleted headers must complete")
	newTail, err = store.Tail(ctx)
	require.NoError(t, err)
	require.Equal(t, to, newTail.Height())
	_, err = store.GetByHeight(ctx, newTail.Height())
	require.NoError(t, err, "the tail resolves to a stored header")
}
