// Package rules holds one file per property: the obligations of DESIGN.md §5.
package rules

import (
	"sort"

	"hdrcheck/an"
)

// Rule is the static check of one property.
type Rule struct {
	ID          string
	Explanation string   // what is decided, for the evidence file
	NotDecided  []string // clauses of the property the static check does not decide
	Assumptions []string
	Technique   string // deciding method, for MANIFEST.json
	Trusted     string // trusted base / assumptions, for MANIFEST.json (level_note)
	Run         func(c *an.Ctx)
}

var registry = map[string]*Rule{}

func register(r *Rule) { registry[r.ID] = r }

// Get returns the rule of a property or nil.
func Get(id string) *Rule { return registry[id] }

// IDs lists the registered properties.
func IDs() []string {
	var out []string
	for id := range registry {
		out = append(out, id)
	}
	sort.Strings(out)
	return out
}
