package selftest

// The essence of the seventh-round seeded change that needed a clause of its own, and equivalents.
func init() {
	const hs = "store/heightsub.go"
	const loop = "\tfor _, h := range heights {\n\t\ths.notify(h, true)\n\t}\n}\n\nfunc (hs *heightSub) notify("
	add(
		Variant{Prop: "C12", Name: "seed-notify-skips-heights-at-or-below-the-published-one", File: hs, Expect: "C12.c",
			Old: loop, New: "\tcurr := hs.Height()\n\tfor _, h := range heights {\n\t\tif h <= curr {\n\t\t\tcontinue\n\t\t}\n\t\ths.notify(h, true)\n\t}\n}\n\nfunc (hs *heightSub) notify("},
		Variant{Prop: "C12", Name: "seed-notify-stops-at-the-first-height-without-a-waiter", File: hs, Expect: "C12.c",
			Old: loop, New: "\tfor _, h := range heights {\n\t\tif _, ok := hs.heightSubs[h]; !ok {\n\t\t\tbreak\n\t\t}\n\t\ths.notify(h, true)\n\t}\n}\n\nfunc (hs *heightSub) notify("},
		Variant{Prop: "C12", Name: "benign-notify-loop-by-index", File: hs,
			Old: loop, New: "\tfor i := 0; i < len(heights); i++ {\n\t\ths.notify(heights[i], true)\n\t}\n}\n\nfunc (hs *heightSub) notify("},
	)
}
