package selftest

// Finding F31 (known, not repaired): the clause stays armed — silent on a repaired form, firing on a further
// loss of the peer.
func init() {
	const se = "p2p/session.go"
	add(
		Variant{Prop: "C18", Name: "benign-f31-repaired-peer-returned-after-an-empty-response-too", File: se,
			Old: "\t\tif errors.Is(err, header.ErrNotFound) {\n\t\t\ts.queue.push(stat)\n\t\t}\n", New: "\t\tif errors.Is(err, header.ErrNotFound) || errors.Is(err, errEmptyResponse) {\n\t\t\ts.queue.push(stat)\n\t\t}\n"},
		Variant{Prop: "C18", Name: "peer-not-returned-after-not-found-either", File: se, Expect: "C18.d",
			Old: "\t\tif errors.Is(err, header.ErrNotFound) {\n\t\t\ts.queue.push(stat)\n\t\t}\n", New: ""},
	)
}
