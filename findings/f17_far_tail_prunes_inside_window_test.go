package sync

// Demonstration for finding F17 (property C16).
// Copy into /repo/sync and run: go test ./sync -run 'TestF17' -count=1
//
// F17: findTailHeight refined its estimate only upwards. In the "far" branch the estimate is taken from
//      the head, head.Height() - window/blockTime, which is an UPPER bound of the first header of the
//      window when header times are spaced by at most the block time: with a tighter spacing the header
//      at the estimate is already inside the window, the walk stops at once, and every header between
//      the window's first header and the estimate is pruned. "As long as header times are spaced by at
//      most the configured block time no header younger than the pruning window is deleted."
//      Found while checking a fourth-round seeded change that made the "close" branch estimate from the
//      head too: the clean tree already did in the far branch what the seed added to the close one.
//      Rule C16.c `window-search-walks-down`; repaired by /repo 21665d4 (the search walks down too).
//      Fails on /repo aed5f0f (tail 351, heights 301..350 pruned), passes from 21665d4 on.

import (
	"context"
	"testing"
	"time"

	"github.com/ipfs/go-datastore"
	dssync "github.com/ipfs/go-datastore/sync"
	"github.com/stretchr/testify/require"

	"github.com/celestiaorg/go-header/headertest"
	"github.com/celestiaorg/go-header/store"
)

// The configured block time is an upper bound of the real block production time.
// Here headers are produced every headertest.HeaderTime (1ns) while the block time is
// configured as 2ns, so header times are spaced by at most the block time.
// When the tail is far out of the pruning window (old tail 1, head 401, window 100), pruning must
// not delete any header that is still younger than the pruning window.
func TestF17_FarTailKeepsHeadersWithinWindow(t *testing.T) {
	ctx, cancel := context.WithTimeout(context.Background(), time.Second*8)
	t.Cleanup(cancel)

	const (
		blockTime = 2 * headertest.HeaderTime
		window    = 100 * headertest.HeaderTime
	)

	suite := headertest.NewTestSuite(t)
	remoteStore := headertest.NewStore[*headertest.DummyHeader](t, suite, 400)

	ds := dssync.MutexWrap(datastore.NewMapDatastore())
	localStore, err := store.NewStore[*headertest.DummyHeader](
		ds,
		store.WithWriteBatchSize(1),
	)
	require.NoError(t, err)
	err = localStore.Start(ctx)
	require.NoError(t, err)

	syncer, err := NewSyncer[*headertest.DummyHeader](
		remoteStore,
		localStore,
		headertest.NewDummySubscriber(),
		WithBlockTime(blockTime),
		WithPruningWindow(window),
	)
	require.NoError(t, err)

	err = syncer.Start(ctx)
	require.NoError(t, err)
	time.Sleep(time.Millisecond * 10)
	err = syncer.SyncWait(ctx)
	require.NoError(t, err)
	require.EqualValues(t, 400, syncer.State().Height)

	tail, err := localStore.Tail(ctx)
	require.NoError(t, err)
	require.EqualValues(t, 1, tail.Height())

	// simulate new head
	err = remoteStore.Append(ctx, suite.NextHeader())
	require.NoError(t, err)

	// trigger recency check and with it the tail renewal
	head, err := syncer.Head(ctx)
	require.NoError(t, err)
	require.EqualValues(t, 401, head.Height())

	// the old tail (1) is 400ns older than the head, i.e. 300ns out of the 100ns window,
	// which is more than the window itself: tails are "far", the estimate is taken from the head
	cutoff := head.Time().UTC().Add(-window)

	tail, err = localStore.Tail(ctx)
	require.NoError(t, err)
	localHead, err := localStore.Head(ctx)
	require.NoError(t, err)
	require.EqualValues(t, 401, localHead.Height())

	// every header which is not older than the pruning window must still be there
	for h := uint64(1); h <= remoteStore.Height(); h++ {
		hdr, err := remoteStore.GetByHeight(ctx, h)
		require.NoError(t, err)
		if hdr.Time().UTC().Before(cutoff) {
			continue
		}
		require.Truef(t, localStore.HasAt(ctx, h),
			"header %d (time %s) is within the pruning window (cutoff %s) but was pruned: tail is %d",
			h, hdr.Time().UTC(), cutoff, tail.Height(),
		)
	}
	t.Logf("tail after renewal: %d", tail.Height())
	// with 1ns header times the first header within the window is 51
	require.LessOrEqual(t, tail.Height(), uint64(301))
}
