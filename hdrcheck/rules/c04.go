package rules

import (
	"go/types"
	"strings"

	"golang.org/x/tools/go/ssa"

	"hdrcheck/an"
)

func init() {
	register(&Rule{
		ID: "C04",
		Explanation: "Decides structural clauses of the Store's chain invariant: (a) absence is reported only after every tier was consulted: Get fails only after the cache, the pending batch and the datastore missed, Has likewise, and the by-height lookup only after head pointer, tail pointer, pending batch and height index were consulted (an index hit goes through Get); " +
			"(b) the head advances (and the tail recedes) one height at a time: each step adopts the result of a successful lookup at exactly current.Height()+1 (−1), so the head cannot move past a gap; " +
			"(c) every writer of the head pointer follows a publication idiom that keeps Height() == Head().Height(): heightSub.Init or SetHeight of the same header's height, an immediately following advanceHead, or a nil store (store emptied); " +
			"(d) every datastore access in package store builds its key with one of the key constructors or a head/tail pointer key, each key class has writer, reader and deleter, and a flush indexes heightKey(h.Height()) ↦ h.Hash() for the same h whose bytes it stores under headerKey(h); " +
			"(e) the range reader rejects from ≥ to before any effect, allocates exactly to−from slots and fills them by walking LastHeader() links down from the header at to−1, with every index proven in bounds.",
		NotDecided: []string{
			"behaviour over operation histories: gap creation and filling orders, cache eviction, batch size 1, datastore flavours",
			"that headers linked by LastHeader() have consecutive heights (a property of the header type)",
		},
		Technique: "must-precede over lookup tiers, loop-carried-value (phi) structure of the head/tail walks, writer enumeration of the head pointer with publication idioms, key-constructor table agreement, arithmetic obligations",
		Trusted:   "go/types+go/ssa; go-datastore, LRU and sync/atomic contracts",
		Run:       runC04,
		Imports: []Import{
			{From: "C06.a", As: "C04.f", Why: "the [Tail, Head] range must be the same after a restart: every flush persists both pointers, the headers and the index in one batch"},
			{From: "C06.d", Match: "ensure-init", As: "C04.f", Why: "Tail ≤ Head needs both pointers set whenever the store is non-empty, also after a reopen with one pointer absent"},
			{From: "C08.d", As: "C04.g", Why: "after DeleteRange the pointers must bound exactly the heights still stored: they move only with the deletion progress"},
			{From: "C08.b", As: "C04.g", Why: "Has/HasAt/Get/GetByHeight agree after a deletion only if every tier (pending, caches, index, datastore) is purged"},
			{From: "C14.b", Match: "removal-after-all-handlers", As: "C04.g", Why: "a cache purged before the OnDelete handlers ran is re-populated by a handler that reads the header, and then serves it after the deletion"},
			{From: "C08.c", Match: "batch-cleanup", As: "C04.g", Why: "a deletion whose write batch is not committed leaves headers in the datastore that the caches, the pending batch and the pointers no longer know: Has/Get still find them while HasAt says no"},
			{From: "C12.a", Match: "lookup-before-wait", As: "C04.a", Why: "every appended header is readable by height wherever it sits: a by-height read that waits for the published height without a full lookup first never finds a flushed header above a gap"},
			{From: "C12.a", Match: "second-lookup-returned", As: "C04.a", Why: "see lookup-before-wait"},
			{From: "C12.b", Match: "recheck-under-lock", As: "C04.a", Why: "a stored header equal to Head is readable by height: a reader that subscribes to exactly the height the write loop has just published has to notice it under the lock, or it waits for a signal nobody sends"},
			{From: "C14.d", Match: "removal-outside-step", As: "C04.i", Why: "Has, Get and GetByHeight agree with HasAt while a header is stored: nothing but a deletion step takes a header (or its hash entry) out of a read tier — a pending batch that drops the hash of a header appended a second time answers Has(hash) false for a height HasAt reports"},
			{From: "C14.d", Match: "wipe-after-deletion", As: "C04.h", Why: "a whole-chain deletion drops the pointers only after the deletion went through: dropped first, a part-way failure makes setTail re-seed the head at the failed height on disk, and after a restart Head = Tail although the headers up to the old head are stored"},
			{From: "C17.c", Match: "sync-ack-after-drain", As: "C04.h", Why: "'once writes are synced' is the premise of every clause: Sync returns only after the write loop found its queue empty; a drain that stops half-way (a counting loop over a shrinking len) leaves appended headers unreadable after Sync"},
			{From: "C17.e", Match: "pointer-move-unconditional", As: "C04.c", Why: "Head is the top of the contiguous run only if every append round re-evaluates it, whatever range was appended"},
		},
	})
}

func runC04(c *an.Ctx) {
	p := c.P
	get := p.Method("store", "Store", "Get")
	has := p.Method("store", "Store", "Has")
	lookup := p.Method("store", "Store", "getByHeight")
	nextHead := p.Method("store", "Store", "nextHead")
	nextTail := p.Method("store", "Store", "nextTail")
	advance := p.Method("store", "Store", "advanceHead")
	rangeFn := p.Method("store", "Store", "getRangeByHeight")
	flush := p.Method("store", "Store", "flush")
	indexTo := p.Func("store", "indexTo")
	okA := true
	for name, f := range map[string]*ssa.Function{"store.(*Store).Get": get, "store.(*Store).Has": has, "store.(*Store).getByHeight": lookup, "store.(*Store).nextHead": nextHead,
		"store.(*Store).nextTail": nextTail, "store.(*Store).advanceHead": advance, "store.(*Store).getRangeByHeight": rangeFn, "store.(*Store).flush": flush} {
		okA = c.Need(f, "C04.a", name) && okA
	}
	if !okA {
		return
	}
	callNamed := func(fn *ssa.Function, suffix string) an.InstrPred {
		return func(in ssa.Instruction) bool {
			call, ok := in.(*ssa.Call)
			if !ok {
				return false
			}
			if cal := an.StaticCallee(&call.Call); cal != nil && strings.HasSuffix(an.FuncName(cal), suffix) {
				return true
			}
			return strings.HasSuffix(an.StaticFullName(&call.Call), suffix)
		}
	}

	// --- C04.a tiers
	tiers := func(fn *ssa.Function, what string, preds map[string]an.InstrPred) {
		t, ff := c.T(fn), c.F(fn)
		fl := an.Flow{Fn: fn}
		n := 0
		for _, r := range ff.Returns() {
			sh := t.ErrShape(errResult(r))
			if sh == "nil" {
				// for Has: a `false, nil`-style miss also counts; only error returns are checked for Get/lookup
				continue
			}
			n++
			for name, pr := range preds {
				c.Check(fl.MustPrecede(pr, r), "C04.a", what+"-miss-after:"+name, what+" reports an error/absence only after this tier was consulted", fn, r, sh, nil)
			}
		}
		c.Min("C04.a", "failing returns of "+what, n, 1)
	}
	tiers(get, "Get", map[string]an.InstrPred{
		"cache":     callNamed(get, "TwoQueueCache[K, V]).Get"),
		"pending":   callNamed(get, "store.(*batch).Get"),
		"datastore": callNamed(get, "store.(*Store).get"),
	})
	tiers(has, "Has", map[string]an.InstrPred{
		"cache":     callNamed(has, "TwoQueueCache[K, V]).Contains"),
		"pending":   callNamed(has, "store.(*batch).Has"),
		"datastore": callNamed(has, "keytransform.Datastore).Has"),
	})
	tiers(lookup, "getByHeight", map[string]an.InstrPred{
		"head-pointer": callNamed(lookup, "store.(*Store).Head"),
		"tail-pointer": callNamed(lookup, "store.(*Store).Tail"),
		"pending":      callNamed(lookup, "store.(*batch).GetByHeight"),
		"height-index": callNamed(lookup, "store.(*heightIndexer).HashByHeight"),
	})
	{
		// success paths of the lookup: head/tail only when their height matches; index hit goes through Get(hash)
		t, ff := c.T(lookup), c.F(lookup)
		nOK := 0
		for _, r := range ff.Returns() {
			r0 := t.Of(t.Deref(r.Results[0]))
			e := t.Of(t.Deref(errResult(r)))
			fs := ff.AtInstr(r)
			switch {
			case strings.Contains(r0, "store.Store[H]).Head@") && strings.HasSuffix(r0, "#0") && e == "nil":
				nOK++
				c.Check(fs.Has(an.EQ("Height("+r0+")", "p2")) && fs.Has(an.NotB("IsZero("+r0+")")), "C04.a", "head-shortcut-exact", "the head is returned for a by-height lookup only when it is non-zero and its height is the requested one", lookup, r, "", fs)
			case strings.Contains(r0, "store.Store[H]).Tail@") && strings.HasSuffix(r0, "#0") && e == "nil":
				nOK++
				c.Check(fs.Has(an.EQ("Height("+r0+")", "p2")) && fs.Has(an.NotB("IsZero("+r0+")")), "C04.a", "tail-shortcut-exact", "the tail is returned for a by-height lookup only when it is non-zero and its height is the requested one", lookup, r, "", fs)
			case strings.Contains(r0, "batch[H]).GetByHeight@") && e == "nil":
				nOK++
				var pc *ssa.Call
				an.Instrs(lookup, func(in ssa.Instruction) {
					if call, ok := in.(*ssa.Call); ok && t.Of(call) == r0 {
						pc = call
					}
				})
				c.Check(pc != nil && t.Of(pc.Call.Args[1]) == "p2" && fs.Has(an.NotB("IsZero("+r0+")")), "C04.a", "pending-by-height", "a pending header is returned for the requested height when present", lookup, r, "", fs)
			case strings.Contains(r0, "store.Store[H]).Get@"):
				nOK++
				var gc, ic *ssa.Call
				an.Instrs(lookup, func(in ssa.Instruction) {
					if call, ok := in.(*ssa.Call); ok {
						if t.Of(call)+"#0" == r0 {
							gc = call
						}
						if cal := an.StaticCallee(&call.Call); cal != nil && an.FuncName(cal) == "store.(*heightIndexer).HashByHeight" {
							ic = call
						}
					}
				})
				okG := gc != nil && ic != nil && t.Of(gc.Call.Args[2]) == t.Of(ic)+"#0" && t.Of(ic.Call.Args[2]) == "p2" && ff.AtInstr(gc).Has(an.EQ(t.Of(ic)+"#1", "nil"))
				c.Check(okG, "C04.a", "index-hit-through-get", "an index hit for the requested height is resolved through Get(hash) (cache, pending, datastore)", lookup, r, "", ff.AtInstr(r))
			}
		}
		c.Min("C04.a", "successful tiers of the by-height lookup", nOK, 4)
	}

	// --- C04.b one-step walks
	walk := func(fn *ssa.Function, delta string, what string) {
		t, ff := c.T(fn), c.F(fn)
		calls := callsTo(fn, lookup)
		c.Min("C04.b", "lookups in "+what, len(calls), 1)
		for _, call := range calls {
			cur, okPhi := call.Call.Args[2].(ssa.Value), false
			// argument is Height(φ) ± 1 with φ = phi[start, candidate]
			arg := t.Of(cur)
			var phi *ssa.Phi
			for _, b := range fn.Blocks {
				for _, in := range b.Instrs {
					if ph, isPhi := in.(*ssa.Phi); isPhi && arg == "(Height("+t.Of(ph)+")"+delta+")" {
						phi = ph
					}
				}
			}
			if phi != nil {
				okPhi = true
				for i, e := range phi.Edges {
					pred := phi.Block().Preds[i]
					if ff.Dominates(phi.Block(), pred) {
						// back edge: the candidate just found, under err == nil
						okPhi = okPhi && t.Of(e) == t.Of(call)+"#0" && ff.EdgeFacts(pred, phi.Block()).Has(an.EQ(t.Of(call)+"#1", "nil"))
					}
				}
			} else if bo, isBO := cur.(*ssa.BinOp); isBO {
				// the current header lives in a local variable (named result read by a deferred
				// closure): Height(*v)±1 where v is only ever assigned the starting pointer and,
				// under a nil lookup error, the header just found.
				var hcall *ssa.Call
				for _, side := range []ssa.Value{bo.X, bo.Y} {
					if hc, isCall := side.(*ssa.Call); isCall && hc.Call.IsInvoke() && hc.Call.Method.Name() == "Height" {
						hcall = hc
					}
				}
				if hcall != nil && arg == "(Height("+t.Of(hcall.Call.Value)+")"+delta+")" {
					if u, isU := hcall.Call.Value.(*ssa.UnOp); isU {
						if al, isAl := u.X.(*ssa.Alloc); isAl {
							okPhi = true
							nLoop := 0
							for _, st := range an.AllocStores(al) {
								v := t.Of(st.Val)
								if su, isSU := st.Val.(*ssa.UnOp); isSU && su.X == ssa.Value(al) {
									continue // `return tail, …` re-stores the named result into itself
								}
								switch {
								case v == t.Of(call)+"#0":
									nLoop++
									okPhi = okPhi && ff.AtInstr(st).Has(an.EQ(t.Of(call)+"#1", "nil"))
								case strings.Contains(v, "store.Store[H])."+map[string]string{"+1": "Head", "-1": "Tail"}[delta]+"@"):
								default:
									okPhi = false
								}
							}
							okPhi = okPhi && nLoop >= 1
						}
					}
				}
			}
			c.Check(okPhi, "C04.b", "one-step:"+what, "each step of the walk adopts the header found at exactly current.Height()"+delta+" (under a nil lookup error): the pointer cannot jump over a gap", fn, call, "lookup("+arg+")", nil)
		}
		// the walk is entered whenever the starting pointer was read and the context is alive, and it
		// goes on after every hit (it stops at the first miss, not before)
		{
			var assume []an.Fact
			an.Instrs(fn, func(in ssa.Instruction) {
				call, ok := in.(*ssa.Call)
				if !ok {
					return
				}
				if cal := an.StaticCallee(&call.Call); cal != nil && an.FuncName(cal) == "store.(*Store)."+map[string]string{"+1": "Head", "-1": "Tail"}[delta] {
					assume = append(assume, an.EQ(t.Of(call)+"#1", "nil"))
				}
				if call.Call.IsInvoke() && call.Call.Method.Name() == "Err" && types.TypeString(call.Call.Value.Type(), nil) == "context.Context" {
					assume = append(assume, an.EQ(t.Of(call), "nil"))
				}
			})
			for _, call := range calls {
				pr := ff.Prune(assume...)
				c.Check(pr.Reachable(call.Block()), "C04.b", "walk-entered:"+what, "with the starting pointer read and a live context the walk looks up the next height (it is not skipped)", fn, call, "", nil)
				pr2 := ff.Prune(append(append([]an.Fact{}, assume...), an.EQ(t.Of(call)+"#1", "nil"))...)
				again := (an.Flow{Fn: fn, Skip: pr2.Removed}).CanReach(call, call)
				c.Check(again, "C04.b", "walk-continues:"+what, "after a hit (and with a live context) the walk looks up the next height again: it ends at the first miss, not earlier", fn, call, "", nil)
			}
		}
		// the returned header is the loop-carried one
		for _, r := range ff.Returns() {
			v := t.Deref(r.Results[0])
			_, isPhi := v.(*ssa.Phi)
			isStart := strings.Contains(t.Of(v), "store.Store[H])."+map[string]string{"+1": "Head", "-1": "Tail"}[delta]+"@")
			isVar := false
			if u, isU := v.(*ssa.UnOp); isU {
				if al, isAl := u.X.(*ssa.Alloc); isAl && len(an.AllocStores(al)) >= 2 {
					isVar = true // the loop variable itself (its stores are checked above)
				}
			}
			c.Check(isPhi || isStart || isVar, "C04.b", "walk-result:"+what, "the walk returns the last header it adopted (or the starting pointer)", fn, r, t.Of(v), nil)
		}
	}
	walk(nextHead, "+1", "nextHead")
	walk(nextTail, "-1", "nextTail")

	// --- C04.c head pointer writers
	initFn := p.Method("store", "heightSub", "Init")
	setHeight := p.Method("store", "heightSub", "SetHeight")
	nW := 0
	for _, fn := range p.RepoFuncs() {
		if an.Enclosing(fn).Pkg != get.Pkg {
			continue
		}
		t, ff := c.T(fn), c.F(fn)
		an.Instrs(fn, func(in ssa.Instruction) {
			call, ok := in.(*ssa.Call)
			if !ok {
				return
			}
			full := an.StaticFullName(&call.Call)
			isStore := strings.HasSuffix(full, "atomic.Pointer[T]).Store")
			isCAS := strings.HasSuffix(full, "atomic.Pointer[T]).CompareAndSwap")
			if (!isStore && !isCAS) || !strings.HasSuffix(t.Of(call.Call.Args[0]), ".contiguousHead") {
				return
			}
			nW++
			val := call.Call.Args[len(call.Call.Args)-1]
			key := "head-writer:" + an.FuncName(fn)
			rule := "a writer of the head pointer publishes the same header's height (heightSub.Init/SetHeight), is immediately followed by advanceHead, or stores nil"
			if cst, isC := val.(*ssa.Const); isC && cst.Value == nil {
				c.Ok("C04.c", key+":nil", rule, fn, call, "stores nil (store emptied)", nil)
				return
			}
			if an.FuncName(fn) == "store.UnsafeResetHead" {
				c.Ok("C04.c", key, rule, fn, call, "frozen exception: UnsafeResetHead is documented unsafe and outside the property's operations (Append/Sync/DeleteRange/restart)", nil)
				return
			}
			// header stored: *alloc = x
			hdr := ""
			if al, isAl := val.(*ssa.Alloc); isAl {
				for _, st := range an.AllocStores(al) {
					hdr = t.Of(st.Val)
				}
				if hdr == "" {
					hdr = "alloc@" + al.Name()
				}
			}
			wantArg := "Height(" + hdr + ")"
			publishes := func(i2 ssa.Instruction) bool {
				c2, isCall := i2.(*ssa.Call)
				if !isCall {
					return false
				}
				cal := an.StaticCallee(&c2.Call)
				if cal == advance {
					return true
				}
				if cal == initFn || cal == setHeight {
					return t.Of(c2.Call.Args[1]) == wantArg
				}
				return false
			}
			okP := false
			if isCAS {
				an.Instrs(fn, func(i2 ssa.Instruction) {
					if publishes(i2) && ff.AtInstr(i2).Has(an.B(t.Of(call))) {
						okP = true
					}
				})
			} else {
				okP, _ = (an.Flow{Fn: fn}).MustFollow(call, publishes, func(r *ssa.Return) bool { return false })
			}
			c.Check(okP, "C04.c", key, rule, fn, call, "stores "+hdr, nil)
		})
	}
	c.Min("C04.c", "writers of the head pointer", nW, 6)
	checkHeightReinitialisedWithHead(c, "C04.c")
	checkPendingDeleteRangeExact(c, "C04.a")
	// advanceHead publishes the header it stores
	{
		t := c.T(advance)
		okAdv := false
		for _, nc := range callsTo(advance, nextHead) {
			for _, sc := range callsTo(advance, setHeight) {
				if t.Of(sc.Call.Args[1]) == "Height("+t.Of(nc)+"#0)" && c.F(advance).AtInstr(sc).Has(an.B(t.Of(nc)+"#1")) {
					okAdv = true
				}
			}
		}
		c.Check(okAdv, "C04.c", "advance-publishes", "advanceHead publishes the height of the new head it found (only when the head changed)", advance, nil, "", nil)
	}

	// --- C04.d key tables
	keyClass := func(t *an.Terms, fn *ssa.Function, v ssa.Value, depth int) string {
		if call, ok := v.(*ssa.Call); ok {
			if cal := an.StaticCallee(&call.Call); cal != nil {
				switch an.FuncName(cal) {
				case "store.hashKey", "store.headerKey":
					return "hash"
				case "store.heightKey":
					return "height"
				}
			}
		}
		s := t.Of(v)
		switch {
		case strings.HasSuffix(s, "store.headKey"):
			return "head-pointer"
		case strings.HasSuffix(s, "store.tailKey"):
			return "tail-pointer"
		}
		if len(s) >= 2 && s[0] == 'p' && isDigits(s[1:]) {
			return "param:" + s
		}
		return "other:" + s
	}
	type acc struct{ w, r, d int }
	classes := map[string]*acc{"hash": {}, "height": {}, "head-pointer": {}, "tail-pointer": {}}
	nAcc := 0
	var resolveParam func(fn *ssa.Function, idx int, depth int) []string
	resolveParam = func(fn *ssa.Function, idx int, depth int) []string {
		var out []string
		if depth > 3 {
			return []string{"other:deep"}
		}
		for _, cs := range p.CG().Sites(fn) {
			ct := c.T(cs.Caller)
			if idx >= len(cs.Instr.Common().Args) {
				out = append(out, "other:arity")
				continue
			}
			kc := keyClass(ct, cs.Caller, cs.Instr.Common().Args[idx], depth)
			if strings.HasPrefix(kc, "param:") {
				k := 0
				for _, ch := range kc[7:] {
					k = k*10 + int(ch-'0')
				}
				out = append(out, resolveParam(cs.Caller, k, depth+1)...)
			} else {
				out = append(out, kc)
			}
		}
		if len(out) == 0 {
			out = []string{"other:no-call-site"}
		}
		return out
	}
	for _, fn := range p.RepoFuncs() {
		if an.Enclosing(fn).Pkg != get.Pkg || strings.HasSuffix(p.Fset.Position(fn.Pos()).Filename, "testing.go") {
			continue
		}
		t := c.T(fn)
		an.Instrs(fn, func(in ssa.Instruction) {
			call, ok := in.(*ssa.Call)
			if !ok {
				return
			}
			op := ""
			var keyArg ssa.Value
			full := an.StaticFullName(&call.Call)
			switch {
			case strings.HasSuffix(full, "keytransform.Datastore).Get"), strings.HasSuffix(full, "keytransform.Datastore).Has"):
				op, keyArg = "r", call.Call.Args[2]
			case strings.HasSuffix(full, "keytransform.Datastore).Put"):
				op, keyArg = "w", call.Call.Args[2]
			case strings.HasSuffix(full, "keytransform.Datastore).Delete"):
				op, keyArg = "d", call.Call.Args[2]
			case call.Call.IsInvoke() && strings.Contains(call.Call.Value.Type().String(), "go-datastore"):
				switch call.Call.Method.Name() {
				case "Get", "Has":
					op, keyArg = "r", call.Call.Args[1]
				case "Put":
					op, keyArg = "w", call.Call.Args[1]
				case "Delete":
					op, keyArg = "d", call.Call.Args[1]
				}
			}
			if op == "" {
				return
			}
			nAcc++
			kcs := []string{keyClass(t, fn, keyArg, 0)}
			if strings.HasPrefix(kcs[0], "param:") {
				k := 0
				for _, ch := range kcs[0][7:] {
					k = k*10 + int(ch-'0')
				}
				kcs = resolveParam(fn, k, 0)
			}
			okK := true
			for _, kc := range kcs {
				a := classes[kc]
				if a == nil {
					okK = false
					continue
				}
				switch op {
				case "r":
					a.r++
				case "w":
					a.w++
				case "d":
					a.d++
				}
			}
			c.Check(okK, "C04.d", "key-constructor:"+an.FuncName(fn)+":"+op, "every datastore access builds its key with hashKey/headerKey, heightKey or the head/tail pointer keys", fn, call, strings.Join(kcs, ","), nil)
		})
	}
	c.Min("C04.d", "datastore accesses in package store", nAcc, 10)
	for name, a := range classes {
		c.Check(a.w > 0 && a.r > 0 && a.d > 0, "C04.d", "key-class:"+name, "each key class has at least one writer, one reader and one deleter (writer and reader tables agree)", nil, nil,
			strings.Join([]string{"writers", itoa(a.w), "readers", itoa(a.r), "deleters", itoa(a.d)}, " "), nil)
	}
	{
		// flush: headerKey(h) ↦ MarshalBinary(h) for every header; indexTo over the same headers: heightKey(h.Height()) ↦ h.Hash()
		ft := c.T(flush)
		okF := false
		for _, l := range indexLoops(ft) {
			if ft.Of(l.Slice) != "p2" || len(l.Elems) == 0 {
				continue
			}
			an.Instrs(flush, func(in ssa.Instruction) {
				call, ok := in.(*ssa.Call)
				if !ok || !call.Call.IsInvoke() || call.Call.Method.Name() != "Put" {
					return
				}
				kc, isCall := call.Call.Args[1].(*ssa.Call)
				if !isCall || an.StaticCallee(&kc.Call) == nil || an.FuncName(an.StaticCallee(&kc.Call)) != "store.headerKey" || !l.isElem(kc.Call.Args[0]) {
					return
				}
				if ex, isEx := call.Call.Args[2].(*ssa.Extract); isEx {
					if mc, isMC := ex.Tuple.(*ssa.Call); isMC && mc.Call.IsInvoke() && mc.Call.Method.Name() == "MarshalBinary" && l.isElem(mc.Call.Value) {
						okF = true
					}
				}
			})
		}
		c.Check(okF, "C04.d", "flush-stores-every-header", "a flush stores MarshalBinary(h) under headerKey(h) for every header of the batch", flush, nil, "", nil)
		okI := false
		for _, ic := range callsTo(flush, indexTo) {
			if ft.Of(ic.Call.Args[2]) == "p2" {
				okI = true
			}
		}
		// (the index may also be written by flush itself, when the helper was folded into it)
		idxFn := indexTo
		if idxFn == nil {
			idxFn, okI = flush, true
		}
		it := c.T(idxFn)
		okPut := false
		for _, l := range indexLoops(it) {
			if it.Of(l.Slice) != "p2" || len(l.Elems) == 0 {
				continue
			}
			e := it.Of(l.Elems[0])
			an.Instrs(idxFn, func(in ssa.Instruction) {
				call, ok := in.(*ssa.Call)
				if !ok || !call.Call.IsInvoke() || call.Call.Method.Name() != "Put" {
					return
				}
				kc, isCall := call.Call.Args[1].(*ssa.Call)
				if isCall && an.StaticCallee(&kc.Call) != nil && an.FuncName(an.StaticCallee(&kc.Call)) == "store.heightKey" &&
					it.Of(kc.Call.Args[0]) == "Height("+e+")" && it.Of(call.Call.Args[2]) == "Hash("+e+")" {
					okPut = true
				}
			})
		}
		c.Check(okI && okPut, "C04.d", "index-same-header", "the same flush writes heightKey(h.Height()) ↦ h.Hash() for every header of the batch", idxFn, nil, "", nil)
	}

	// --- C04.e range reader
	{
		t, ff := c.T(rangeFn), c.F(rangeFn)
		pr := ff.Prune(an.GE("p2", "p3"))
		nRej := 0
		for _, r := range pr.Returns() {
			nRej++
			c.Check(t.ErrShape(errResult(r)) != "nil", "C04.e", "inverted-range-rejected", "a range with from ≥ to is rejected", rangeFn, r, "", nil)
		}
		c.Min("C04.e", "returns for an inverted range", nRej, 1)
		an.Instrs(rangeFn, func(in ssa.Instruction) {
			if call, ok := in.(*ssa.Call); ok && pr.Reachable(call.Block()) {
				if cal := an.StaticCallee(&call.Call); cal != nil && strings.HasPrefix(an.FuncName(cal), "store.(*Store).") {
					c.Fail("C04.e", "effect-before-guard", "no store access happens for an inverted range", rangeFn, call, an.FuncName(cal), nil)
				}
			}
		})
		// allocation to−from, start at to−1, walk by LastHeader
		okAlloc, okStart, okLink := false, false, false
		an.Instrs(rangeFn, func(in ssa.Instruction) {
			switch x := in.(type) {
			case *ssa.MakeSlice:
				okAlloc = t.Of(x.Len) == "(-p2+p3)"
			case *ssa.Call:
				if cal := an.StaticCallee(&x.Call); cal != nil {
					switch an.FuncName(cal) {
					case "store.(*Store).GetByHeight":
						okStart = t.Of(x.Call.Args[2]) == "(p3-1)"
					case "store.(*Store).Get":
						okLink = strings.HasPrefix(t.Of(x.Call.Args[2]), "LastHeader(phi@")
					}
				}
			}
		})
		c.Check(okAlloc && okStart && okLink, "C04.e", "range-walk", "the range reader allocates to−from slots, starts from the header at to−1 and follows LastHeader() links downwards", rangeFn, nil, "", nil)
		n := checkArith(c, "C04.e", []*ssa.Function{rangeFn}, map[string]bool{"usub": true, "index": true, "slice": true, "makesize": true}, nil, nil)
		c.Min("C04.e", "arithmetic/index sites in the range reader", n, 4)
		for _, r := range ff.Returns() {
			if t.ErrShape(errResult(r)) == "nil" {
				v := t.Deref(r.Results[0])
				_, isMS := v.(*ssa.MakeSlice)
				c.Check(isMS, "C04.e", "returns-filled-slice", "the nil-error result is the slice of exactly to−from headers", rangeFn, r, t.Of(v), nil)
			}
		}
	}
}
