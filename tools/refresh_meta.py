#!/usr/bin/env python3
"""refresh_meta.py [Cxx-n ...]

Replays stored seeded changes against the current checker and rewrites the detection part of their
meta.json (detected, detected_by, also_reported_by, properties_reporting, ran.detection), so that
section 10 of DESIGN.md names the obligations that report each change TODAY. Summary, needs and the
confirmation record are left untouched. Without arguments every stored change is replayed.
Applies each patch to /repo and undoes it straight afterwards; exit 1 when a change is no longer
reported under its own property or no longer applies.
"""
import glob, json, os, re, subprocess, sys

ids = sys.argv[1:] or sorted(os.path.basename(d.rstrip("/")) for d in glob.glob("/verif/seeded/*/"))
if subprocess.run(["git", "-C", "/repo", "status", "--porcelain"], capture_output=True, text=True).stdout.strip():
    sys.exit("/repo is not clean")
head = subprocess.run(["git", "-C", "/repo", "rev-parse", "--short", "HEAD"], capture_output=True, text=True).stdout.strip()
bad = 0
for ident in ids:
    d = f"/verif/seeded/{ident}"
    meta = json.load(open(f"{d}/meta.json"))
    prop = meta["property"]
    if subprocess.run(["git", "-C", "/repo", "apply", f"{d}/patch.diff"]).returncode != 0:
        print(f"{ident}: patch does not apply"); bad = 1
        continue
    try:
        out = subprocess.run(["/verif/bin/hdrcheck", "-property", "all", "-verif", "/tmp/seed_verif"], capture_output=True).stdout.decode("utf-8", "replace")
    finally:
        subprocess.run(["git", "-C", "/repo", "checkout", "--", "."], check=True)
    keys = sorted(set(m.group(1) for m in re.finditer(r"^\s*(?:VIOLATED|UNDECIDED)\s+\S+\s+(\S+)", out, re.M)))
    own = [k for k in keys if k.startswith(prop + ".")]
    changed = own != meta.get("detected_by")
    meta["detected"] = bool(own)
    meta["detected_by"] = own
    meta["also_reported_by"] = [k for k in keys if not k.startswith(prop + ".")]
    meta["properties_reporting"] = sorted(set(k.split(".")[0] for k in keys))
    meta.setdefault("ran", {})["detection"] = f"git -C /repo apply patch.diff (HEAD {head}); /verif/bin/hdrcheck -property all; git -C /repo checkout -- ."
    json.dump(meta, open(f"{d}/meta.json", "w"), indent=1, ensure_ascii=False)
    if not own:
        bad = 1
    print(f"{ident}: {'MISSED' if not own else 'reported'}{' (changed)' if changed else ''} {own[:3]}")
assert not subprocess.run(["git", "-C", "/repo", "status", "--porcelain"], capture_output=True, text=True).stdout.strip()
sys.exit(bad)
