package store

// Demonstration for finding F26 (property C08).
// Copy into /repo/store and run: go test ./store -run 'TestF26' -count=1
//
// F26: with a datastore that honours write batches (go-datastore/context wrapper: the deletes of a DeleteRange
//      go into one batch that is committed when the driver returns) a failed Commit of that batch was reported
//      together with the progress of the loop: deleteSequential had finished its loop and returned
//      highest == to with the commit error; DeleteRange then moved the tail to `to` and returned the error.
//      Nothing had been deleted, Tail named height 7, and the retry DeleteRange(1, 7) was rejected as "not
//      present in store": headers 1..6 stayed readable for good — "when it fails part-way … retrying a
//      tail-side deletion completes it". The parallel driver reported a worker's commit failure with the last
//      height that worker had processed, whose removal sat in the same uncommitted batch.
//      Noticed by a sixth-round seeder (C08). Rule C08.c `commit-failure-reports-no-progress`; repaired by the
//      /repo f1dbf3c: a failed commit reports the start of the range as progress.

import (
	"context"
	"errors"
	"sync/atomic"
	"testing"
	"time"

	"github.com/ipfs/go-datastore"
	contextds "github.com/ipfs/go-datastore/context"
	dssync "github.com/ipfs/go-datastore/sync"
	"github.com/stretchr/testify/require"

	"github.com/celestiaorg/go-header/headertest"
)

type f26DS struct {
	datastore.Batching
	failCommit atomic.Bool
}

func (d *f26DS) Batch(ctx context.Context) (datastore.Batch, error) {
	b, err := d.Batching.Batch(ctx)
	if err != nil {
		return nil, err
	}
	return &f26Batch{Batch: b, ds: d}, nil
}

type f26Batch struct {
	datastore.Batch
	ds *f26DS
}

func (b *f26Batch) Commit(ctx context.Context) error {
	if b.ds.failCommit.Load() {
		return errors.New("f26: commit failed")
	}
	return b.Batch.Commit(ctx)
}

func TestF26_FailedDeletionCommitKeepsTheTailAndTheRetryCompletes(t *testing.T) {
	ctx, cancel := context.WithTimeout(context.Background(), time.Second*5)
	t.Cleanup(cancel)
	suite := headertest.NewTestSuite(t)

	fds := &f26DS{Batching: dssync.MutexWrap(datastore.NewMapDatastore())}
	ds := contextds.WrapDatastore(fds).(datastore.Batching)
	store, err := NewStore[*headertest.DummyHeader](ds, WithWriteBatchSize(4))
	require.NoError(t, err)
	require.NoError(t, store.Start(ctx))
	t.Cleanup(func() { _ = store.Stop(context.Background()) })

	headers := append([]*headertest.DummyHeader{suite.Head()}, suite.GenDummyHeaders(11)...)
	require.NoError(t, store.Append(ctx, headers...))
	require.NoError(t, store.Sync(ctx))

	fds.failCommit.Store(true)
	derr := store.DeleteRange(ctx, 1, 7)
	require.Error(t, derr)
	fds.failCommit.Store(false)

	tail, err := store.Tail(ctx)
	require.NoError(t, err)
	t.Logf("after the failed DeleteRange [1:7): tail=%d, err=%v", tail.Height(), derr)
	require.EqualValues(t, 1, tail.Height(), "nothing was deleted, the tail must stay")

	// retrying the tail-side deletion completes it
	require.NoError(t, store.DeleteRange(ctx, 1, 7))
	for _, h := range headers[:6] {
		_, gerr := store.Get(ctx, h.Hash())
		require.Error(t, gerr, "height %d still readable after the retry", h.Height())
	}
	tail, err = store.Tail(ctx)
	require.NoError(t, err)
	require.EqualValues(t, 7, tail.Height())
}
