package an

import (
	"go/constant"
	"go/token"

	"golang.org/x/tools/go/ssa"
)

// exitOnlyAfterIteration reports that the edge h→x leaves a loop whose header h decides on a flag
// that is constant on every entry edge and keeps the loop going there (`done := false; for !done`):
// control cannot go entry → h → x, the exit is taken only after at least one trip round the loop.
func exitOnlyAfterIteration(h, x *ssa.BasicBlock) bool {
	if len(h.Instrs) == 0 || len(h.Succs) != 2 {
		return false
	}
	ifi, ok := h.Instrs[len(h.Instrs)-1].(*ssa.If)
	if !ok {
		return false
	}
	nEntry, nBack := 0, 0
	for i, p := range h.Preds {
		if h.Dominates(p) {
			nBack++
			continue
		}
		nEntry++
		val, known := foldOnEdge(ifi.Cond, h, i, 0)
		if !known {
			return false
		}
		// Succs[0] is taken when the condition is true
		taken := h.Succs[1]
		if val {
			taken = h.Succs[0]
		}
		if taken == x {
			return false
		}
	}
	return nEntry > 0 && nBack > 0
}

// foldOnEdge evaluates a boolean value of block h with h's phis replaced by their operand for
// predecessor i; only constants, negation and phis of h are understood.
func foldOnEdge(v ssa.Value, h *ssa.BasicBlock, i int, depth int) (bool, bool) {
	if depth > 3 {
		return false, false
	}
	switch x := v.(type) {
	case *ssa.Const:
		if x.Value != nil && x.Value.Kind() == constant.Bool {
			return constant.BoolVal(x.Value), true
		}
	case *ssa.UnOp:
		if x.Op == token.NOT {
			if b, ok := foldOnEdge(x.X, h, i, depth+1); ok {
				return !b, true
			}
		}
	case *ssa.Phi:
		if x.Block() == h && i < len(x.Edges) {
			if _, again := x.Edges[i].(*ssa.Phi); !again {
				return foldOnEdge(x.Edges[i], h, i, depth+1)
			}
		}
	}
	return false, false
}
