package rules

import (
	"strings"

	"golang.org/x/tools/go/ssa"

	"hdrcheck/an"
)

// Clauses that came out of the mutation analysis of the functions repaired for F18.

// checkElapsedOnlyWhenPublished (C12.b): "GetByHeight for a height above the current Height blocks …".
// The waiting function tells its caller "do not wait, look the header up" with the elapsed-height signal.
// It does so only when the published height has reached the requested one, or when the check after the
// registration found the header: an inverted pre-check makes every future height come back at once as
// not found.
func checkElapsedOnlyWhenPublished(c *an.Ctx, id string, wait *ssa.Function) {
	t, ff := c.T(wait), c.F(wait)
	var heights, checks []string
	an.Instrs(wait, func(in ssa.Instruction) {
		call, ok := in.(*ssa.Call)
		if !ok {
			return
		}
		if cal := an.StaticCallee(&call.Call); cal != nil && strings.HasSuffix(an.FuncName(cal), "heightSub).Height") {
			heights = append(heights, t.Of(call))
		}
		if _, isParam := call.Call.Value.(*ssa.Parameter); isParam {
			checks = append(checks, t.Of(call))
		}
	})
	n := 0
	for _, r := range ff.Returns() {
		if t.ErrShape(errResult(r)) != "S:store.errElapsedHeight" {
			continue
		}
		n++
		fs := ff.AtRefined(r.Block())
		ok := false
		for _, h := range heights {
			if fs.Has(an.GE(h, "p2")) || fs.Has(an.LE("p2", h)) {
				ok = true
			}
		}
		for _, k := range checks {
			if fs.Has(an.B(k)) {
				ok = true
			}
		}
		c.Check(ok, id, "elapsed-only-when-published", "the waiting function answers 'do not wait' only when the published height has reached the requested one or its check found the header (anything else makes a future height come back at once as not found)", wait, r, "", fs)
	}
	c.Min(id, "elapsed-height returns of the waiting function", n, 2)
}

// checkSharedSignalReleasedLast (C12.b): the readers of one height share a signal. A reader that gives up
// decrements the count and closes the signal only when it was the last one (or when a notification
// releases all of them): closing it while others wait wakes readers whose header is not there.
func checkSharedSignalReleasedLast(c *an.Ctx, id string) {
	notify := c.P.Method("store", "heightSub", "notify")
	if !c.Need(notify, id, "store.(*heightSub).notify") {
		return
	}
	t, ff := c.T(notify), c.F(notify)
	n := 0
	an.Instrs(notify, func(in ssa.Instruction) {
		call, ok := in.(*ssa.Call)
		if !ok {
			return
		}
		b, isB := call.Call.Value.(*ssa.Builtin)
		if !isB || b.Name() != "close" {
			return
		}
		n++
		fs := ff.AtRefined(call.Block())
		okAll := fs.Has(an.B("p2"))
		okLast := false
		for _, f := range fs {
			if f.Op == "EQ" && f.Pos && ((strings.HasSuffix(an.Stable(f.A), ".count") || strings.Contains(an.Stable(f.A), ".count")) && f.B == "0" || (strings.Contains(an.Stable(f.B), ".count") && f.A == "0")) {
				okLast = true
			}
		}
		// `if all || count == 0 { close }`: the close block merges the two — read the merge's operands
		if !okAll && !okLast {
			if blk := call.Block(); len(blk.Preds) >= 1 {
				both := true
				for _, p := range blk.Preds {
					ef := ff.EdgeFacts(p, blk)
					hit := ef.Has(an.B("p2"))
					for _, f := range ef {
						if f.Op == "EQ" && f.Pos && (strings.Contains(an.Stable(f.A), ".count") && f.B == "0" || strings.Contains(an.Stable(f.B), ".count") && f.A == "0") {
							hit = true
						}
					}
					both = both && hit
				}
				okLast = both
			}
		}
		_ = t
		c.Check(okAll || okLast, id, "shared-signal-released-last", "the signal the readers of one height share is closed only by a notification for all of them or by the last reader that gives up", notify, call, "", fs)
	})
	c.Min(id, "closes of the shared signal", n, 1)
}

// checkShortcutHeightMatches (C04.a): "every height in [Tail, Head] is returned by GetByHeight with that
// exact height". The lookup answers from the head or the tail pointer without a read — only when that
// pointer's height is the requested one.
func checkShortcutHeightMatches(c *an.Ctx, id string, lookup *ssa.Function) {
	t, ff := c.T(lookup), c.F(lookup)
	n := 0
	for _, r := range ff.Returns() {
		if len(r.Results) != 2 || t.ErrShape(errResult(r)) != "nil" {
			continue
		}
		v := t.Of(r.Results[0])
		if !(strings.Contains(v, "Store[H]).Head@") || strings.Contains(v, "Store[H]).Tail@")) || !strings.HasSuffix(v, "#0") {
			continue
		}
		n++
		fs := ff.AtRefined(r.Block())
		c.Check(fs.Has(an.EQ("Height("+v+")", "p2")) || fs.Has(an.EQ("p2", "Height("+v+")")), id, "shortcut-height-matches", "the lookup answers from the head or tail pointer only when that header's height is the requested one", lookup, r, "returns "+an.Stable(v), fs)
	}
	c.Min(id, "pointer shortcuts of the by-height lookup", n, 2)
}
