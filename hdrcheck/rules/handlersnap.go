package rules

import (
	"strings"

	"golang.org/x/tools/go/ssa"

	"hdrcheck/an"
)

// checkHandlersFromCurrentList (C14.c): "each registered handler is called exactly once" — registered by
// the time of the deletion. The handlers the per-height step is given are a snapshot of the registered
// list (field onDelete) taken during this very deletion: a clone made in the driver, or the result of a
// helper every return of which is such a fresh clone. A snapshot that is cached (made once, kept in a
// field, handed out again) never sees a handler registered after the first deletion.
func checkHandlersFromCurrentList(c *an.Ctx, id string, single *ssa.Function, callers []an.CallSite) {
	rule := "the handlers the per-height step runs are a snapshot of the registered list taken during this deletion (a cached copy misses handlers registered later)"
	idx := -1
	for i, p := range single.Params {
		if strings.HasPrefix(p.Type().String(), "[]func(") {
			idx = i
		}
	}
	if !c.Check(idx >= 0, id, "handlers-from-current-list", rule, single, nil, "the per-height step takes no handler list", nil) {
		return
	}
	for _, cs := range callers {
		call, ok := cs.Instr.(*ssa.Call)
		if !ok || idx >= len(call.Call.Args) {
			continue
		}
		c.Check(freshHandlerSnapshot(c, cs.Caller, call.Call.Args[idx], 0), id, "handlers-from-current-list", rule, cs.Caller, call, "handlers "+an.Stable(c.T(cs.Caller).Of(call.Call.Args[idx])), nil)
	}
}

// freshHandlerSnapshot: v is slices.Clone(s.onDelete) (or append([]T(nil), s.onDelete...)) evaluated in
// this activation, possibly through a local, a captured variable or a helper that returns nothing else.
func freshHandlerSnapshot(c *an.Ctx, fn *ssa.Function, v ssa.Value, depth int) bool {
	if v == nil || depth > 6 {
		return false
	}
	isList := func(x ssa.Value) bool {
		u, ok := x.(*ssa.UnOp)
		if !ok {
			return false
		}
		fa, isFA := u.X.(*ssa.FieldAddr)
		return isFA && fieldName(fa) == "onDelete"
	}
	switch x := v.(type) {
	case *ssa.Call:
		if strings.HasPrefix(an.StaticFullName(&x.Call), "slices.Clone") && len(x.Call.Args) == 1 {
			return isList(x.Call.Args[0])
		}
		if b, ok := x.Call.Value.(*ssa.Builtin); ok && b.Name() == "append" && len(x.Call.Args) == 2 {
			if k, isK := x.Call.Args[0].(*ssa.Const); isK && k.IsNil() {
				return isList(x.Call.Args[1])
			}
		}
		if cal := an.StaticCallee(&x.Call); cal != nil && cal.Blocks != nil && c.P.InModule(cal) {
			n := 0
			for _, b := range cal.Blocks {
				r, isRet := b.Instrs[len(b.Instrs)-1].(*ssa.Return)
				if !isRet || b == cal.Recover || len(r.Results) == 0 {
					continue
				}
				n++
				if !freshHandlerSnapshot(c, cal, r.Results[0], depth+1) {
					return false
				}
			}
			return n > 0
		}
	case *ssa.Phi:
		for _, e := range x.Edges {
			if !freshHandlerSnapshot(c, fn, e, depth+1) {
				return false
			}
		}
		return len(x.Edges) > 0
	case *ssa.UnOp:
		switch cell := x.X.(type) {
		case *ssa.Alloc:
			sts := an.AllocStores(cell)
			for _, s := range sts {
				if !freshHandlerSnapshot(c, s.Parent(), s.Val, depth+1) {
					return false
				}
			}
			return len(sts) > 0
		case *ssa.FreeVar:
			parent := fn.Parent()
			if parent == nil {
				return false
			}
			ok := false
			for i, fv := range fn.FreeVars {
				if fv != cell {
					continue
				}
				an.Instrs(parent, func(in ssa.Instruction) {
					mc, isMC := in.(*ssa.MakeClosure)
					if !isMC || mc.Fn != ssa.Value(fn) || i >= len(mc.Bindings) {
						return
					}
					if al, isAl := mc.Bindings[i].(*ssa.Alloc); isAl {
						sts := an.AllocStores(al)
						all := len(sts) > 0
						for _, s := range sts {
							all = all && freshHandlerSnapshot(c, s.Parent(), s.Val, depth+1)
						}
						ok = all
					}
				})
			}
			return ok
		}
	case *ssa.FreeVar:
		parent := fn.Parent()
		if parent == nil {
			return false
		}
		ok := false
		for i, fv := range fn.FreeVars {
			if fv != x {
				continue
			}
			an.Instrs(parent, func(in ssa.Instruction) {
				if mc, isMC := in.(*ssa.MakeClosure); isMC && mc.Fn == ssa.Value(fn) && i < len(mc.Bindings) {
					ok = freshHandlerSnapshot(c, parent, mc.Bindings[i], depth+1)
				}
			})
		}
		return ok
	}
	return false
}
