package rules

import (
	"strings"

	"golang.org/x/tools/go/ssa"

	"hdrcheck/an"
)

// checkAdjacencyExact (C03.c): "the Store stays one gap-free run". The adjacency loop of syncStore.Append
// walks the batch with a running head; it moves that head to the next header only when the header's height
// is exactly the head's height plus one — a weaker test (`>`, `+2`) lets a gap or a repeated height through.
func checkAdjacencyExact(c *an.Ctx, id string, ssAppend *ssa.Function) {
	t, ff := c.T(ssAppend), c.F(ssAppend)
	n := 0
	an.Instrs(ssAppend, func(in ssa.Instruction) {
		st, ok := in.(*ssa.Store)
		if !ok {
			return
		}
		al, isAl := st.Addr.(*ssa.Alloc)
		if !isAl || !inCycle(st.Block()) {
			return
		}
		elem := t.Of(st.Val)
		if !strings.HasPrefix(elem, "p2[") {
			return // not an element of the batch
		}
		n++
		fs := ff.AtRefined(st.Block())
		okAdj := false
		for _, f := range fs {
			if f.Op != "EQ" || !f.Pos {
				continue
			}
			for _, pr := range [][2]string{{f.A, f.B}, {f.B, f.A}} {
				a, b := an.Stable(pr[0]), an.Stable(pr[1])
				if b == an.Stable("Height("+elem+")") && strings.HasPrefix(a, "(Height(load(") && strings.HasSuffix(a, "))+1)") {
					// the running head is the local this store writes
					if strings.Contains(a, "load("+al.Name()+")") {
						okAdj = true
					}
				}
			}
		}
		c.Check(okAdj, id, "adjacency-exact", "the running head of the adjacency loop moves to the next header only when that header's height is exactly the head's height plus one", ssAppend, st, "element "+an.Stable(elem), fs)
	})
	// the running head kept in a register: a loop-header merge whose back edge brings the element
	an.Instrs(ssAppend, func(in ssa.Instruction) {
		ph, ok := in.(*ssa.Phi)
		if !ok {
			return
		}
		for i, e := range ph.Edges {
			pred := ph.Block().Preds[i]
			elem := t.Of(e)
			if !ph.Block().Dominates(pred) || !strings.HasPrefix(elem, "p2[") {
				continue
			}
			n++
			fs := append(append(an.FactSet{}, ff.AtRefined(pred)...), ff.EdgeFacts(pred, ph.Block())...)
			want := "(Height(" + t.Of(ph) + ")+1)"
			okAdj := fs.Has(an.EQ(want, "Height("+elem+")")) || fs.Has(an.EQ("Height("+elem+")", want))
			c.Check(okAdj, id, "adjacency-exact", "the running head of the adjacency loop moves to the next header only when that header's height is exactly the head's height plus one", ssAppend, ph, "element "+an.Stable(elem), fs)
		}
	})
	c.Min(id, "steps of the adjacency loop", n, 1)
}
