package selftest

// Finding F29 re-introduced (a leaving reader takes a count off whatever subscription sits under its height),
// and equivalents of the repair.
func init() {
	const hs = "store/heightsub.go"
	const cancelBranch = "\t\ths.heightSubsLk.Lock()\n\t\tif curr, ok := hs.heightSubs[height]; ok && curr == sac {\n\t\t\ths.notify(height, false)\n\t\t}\n\t\ths.heightSubsLk.Unlock()\n\t\treturn ctx.Err()\n"
	add(
		Variant{Prop: "C12", Name: "f29-cancelled-waiter-releases-whatever-is-registered", File: hs, Expect: "C12.b",
			Old: cancelBranch, New: "\t\ths.heightSubsLk.Lock()\n\t\ths.notify(height, false)\n\t\ths.heightSubsLk.Unlock()\n\t\treturn ctx.Err()\n"},
		Variant{Prop: "C12", Name: "f29-entry-looked-up-before-the-lock", File: hs, Expect: "C12.b",
			Old: cancelBranch, New: "\t\tcurr, ok := hs.heightSubs[height]\n\t\ths.heightSubsLk.Lock()\n\t\tif ok && curr == sac {\n\t\t\ths.notify(height, false)\n\t\t}\n\t\ths.heightSubsLk.Unlock()\n\t\treturn ctx.Err()\n"},
		Variant{Prop: "C12", Name: "f29-only-presence-of-an-entry-tested", File: hs, Expect: "C12.b",
			Old: cancelBranch, New: "\t\ths.heightSubsLk.Lock()\n\t\tif _, ok := hs.heightSubs[height]; ok {\n\t\t\ths.notify(height, false)\n\t\t}\n\t\ths.heightSubsLk.Unlock()\n\t\treturn ctx.Err()\n"},
		Variant{Prop: "C12", Name: "benign-f29-identity-test-commuted-and-nested", File: hs,
			Old: cancelBranch, New: "\t\ths.heightSubsLk.Lock()\n\t\tif curr, ok := hs.heightSubs[height]; ok {\n\t\t\tif sac == curr {\n\t\t\t\ths.notify(height, false)\n\t\t\t}\n\t\t}\n\t\ths.heightSubsLk.Unlock()\n\t\treturn ctx.Err()\n"},
	)
}
