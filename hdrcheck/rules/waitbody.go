package rules

import (
	"golang.org/x/tools/go/ssa"

	"hdrcheck/an"
)

// waitBody is the function that registers a waiter and blocks: heightSub.wait (Wait with a final check
// after the registration, finding F18; the exported Wait delegates to it), or Wait itself on a tree
// where the two are one.
func waitBody(c *an.Ctx) *ssa.Function {
	if w := c.P.Method("store", "heightSub", "wait"); w != nil && w.Blocks != nil {
		return w
	}
	return c.P.Method("store", "heightSub", "Wait")
}
