package selftest

// The essence of the ninth-round seeded changes that needed a clause of their own or an extension of one.
func init() {
	const ss = "sync/sync_store.go"
	const rg = "sync/ranges.go"
	const ex = "p2p/exchange.go"
	add(
		Variant{Prop: "C03", Name: "seed-cached-head-stored-through-a-by-value-helper", File: ss, Expect: "C03.c",
			Old: "\t\ts.head.Store(&head)\n\t}\n\n\tif err := s.Store.Append(ctx, headers...); err != nil {", New: "\t\ts.setHead(head)\n\t}\n\n\tif err := s.Store.Append(ctx, headers...); err != nil {",
			More: []Edit{{File: ss, Old: "func (s *syncStore[H]) Append(", New: "func (s *syncStore[H]) setHead(head H) {\n\ts.head.Store(&head)\n}\n\nfunc (s *syncStore[H]) Append("}}},
		Variant{Prop: "C03", Name: "seed-range-compacted-by-appending-to-its-own-prefix", File: rg, Expect: "C03.g",
			Old: "\tr.headers = r.headers[amnt:]\n", New: "\tr.headers = append(r.headers[:0], r.headers[amnt:]...)\n"},
		Variant{Prop: "C13", Name: "seed-attempt-returns-silently-once-the-request-context-ended", File: ex, Expect: "C13.d",
			Old: "\t\t\th, err := ex.request(reqCtx, from, req)\n", New: "\t\t\th, err := ex.request(reqCtx, from, req)\n\t\t\tif reqCtx.Err() != nil {\n\t\t\t\treturn\n\t\t\t}\n"},
	)
}
