package rules

import (
	"strings"

	"golang.org/x/tools/go/ssa"

	"hdrcheck/an"
)

// checkWriteBatch: the deletions of a DeleteRange go to a write batch attached to the
// context by withWriteBatch and only reach the datastore when the cleanup closure that
// withWriteBatch returns commits that batch. A deletion that "succeeded" is therefore
// durable only if
//   - the cleanup closure handed out together with the batch-carrying context commits
//     exactly that batch on every path and returns Commit's own result;
//   - every function that opens a batch defers a closure that calls the cleanup
//     unconditionally and does not drop its error.
func checkWriteBatch(c *an.Ctx, id string) {
	p := c.P
	wwb := p.Method("store", "Store", "withWriteBatch")
	if !c.Need(wwb, id, "store.(*Store).withWriteBatch") {
		return
	}
	nBatch := 0
	for _, b := range wwb.Blocks {
		ret, isRet := b.Instrs[len(b.Instrs)-1].(*ssa.Return)
		if !isRet || len(ret.Results) != 2 {
			continue
		}
		ww, isCall := ret.Results[0].(*ssa.Call)
		if !isCall || !strings.HasSuffix(an.StaticFullName(&ww.Call), "datastore/context.WithWrite") {
			continue
		}
		nBatch++
		// the batch variable attached to the context
		var batchAlloc *ssa.Alloc
		if u, isU := an.Unwrap(ww.Call.Args[1]).(*ssa.UnOp); isU {
			batchAlloc, _ = u.X.(*ssa.Alloc)
		}
		mc, isMC := ret.Results[1].(*ssa.MakeClosure)
		if !c.Check(batchAlloc != nil && isMC, id, "batch-cleanup-closure", "withWriteBatch returns the batch-carrying context together with a cleanup closure over that batch", wwb, ret, "", nil) {
			continue
		}
		cl := mc.Fn.(*ssa.Function)
		var fv *ssa.FreeVar
		for i, bnd := range mc.Bindings {
			if bnd == ssa.Value(batchAlloc) {
				fv = cl.FreeVars[i]
			}
		}
		var commit *ssa.Call
		an.Instrs(cl, func(in ssa.Instruction) {
			call, isCall := in.(*ssa.Call)
			if !isCall || !call.Call.IsInvoke() || call.Call.Method.Name() != "Commit" {
				return
			}
			if u, isU := call.Call.Value.(*ssa.UnOp); isU && fv != nil && u.X == ssa.Value(fv) {
				commit = call
			}
		})
		if !c.Check(commit != nil, id, "batch-cleanup-commits", "the cleanup closure commits the batch that was attached to the context", cl, nil, "", nil) {
			continue
		}
		ct := c.T(cl)
		isCommit := func(in ssa.Instruction) bool { return in == ssa.Instruction(commit) }
		nRet := 0
		for _, cb := range cl.Blocks {
			r, isRet := cb.Instrs[len(cb.Instrs)-1].(*ssa.Return)
			if !isRet || (cb.Index != 0 && len(cb.Preds) == 0) {
				continue
			}
			nRet++
			sh := ct.ErrShape(r.Results[0])
			c.Check((an.Flow{Fn: cl}).MustPrecede(isCommit, r) && (r.Results[0] == ssa.Value(commit) || sh == "prop("+ct.Of(commit)+")"), id, "batch-cleanup-always-commits",
				"every exit of the cleanup closure has committed the batch and returns Commit's result (no path skips the commit)", cl, r, "returns "+an.Stable(sh), nil)
		}
		c.Min(id, "exits of the batch cleanup closure", nRet, 1)
	}
	c.Min(id, "batch-carrying returns of withWriteBatch", nBatch, 1)

	// callers: the cleanup is deferred, unconditional, and its error is kept
	nCallers := 0
	for _, fn := range p.RepoFuncs() {
		if fn.Pkg == nil || fn.Pkg.Pkg.Name() != "store" {
			continue
		}
		for _, call := range callsTo(fn, wwb) {
			nCallers++
			var done ssa.Value
			for _, ref := range *call.Referrers() {
				if ex, isEx := ref.(*ssa.Extract); isEx && ex.Index == 1 {
					done = ex
				}
			}
			// `done` captured by a deferred closure lives in an alloc
			var doneAlloc *ssa.Alloc
			if done != nil {
				for _, ref := range *done.Referrers() {
					if st, isSt := ref.(*ssa.Store); isSt && st.Val == done {
						doneAlloc, _ = st.Addr.(*ssa.Alloc)
					}
				}
			}
			var deferIns *ssa.Defer
			var doneCall *ssa.Call
			var deferred *ssa.Function
			an.Instrs(fn, func(in ssa.Instruction) {
				df, isDf := in.(*ssa.Defer)
				if !isDf {
					return
				}
				mc, isMC := df.Call.Value.(*ssa.MakeClosure)
				if !isMC {
					return
				}
				dcl := mc.Fn.(*ssa.Function)
				for i, bnd := range mc.Bindings {
					if doneAlloc == nil || bnd != ssa.Value(doneAlloc) {
						continue
					}
					dfv := dcl.FreeVars[i]
					an.Instrs(dcl, func(din ssa.Instruction) {
						dc, isCall := din.(*ssa.Call)
						if !isCall || dc.Call.IsInvoke() {
							return
						}
						if u, isU := dc.Call.Value.(*ssa.UnOp); isU && u.X == ssa.Value(dfv) {
							deferIns, doneCall, deferred = df, dc, dcl
						}
					})
				}
			})
			if !c.Check(deferIns != nil, id, "batch-cleanup-deferred:"+an.FuncName(fn), "a function that opens a write batch defers a closure calling the batch cleanup", fn, call, "", nil) {
				continue
			}
			// the defer is registered on every path from the call to an exit
			fl := an.Flow{Fn: fn}
			isDefer := func(in ssa.Instruction) bool { return in == ssa.Instruction(deferIns) }
			okAll := true
			for _, b := range fn.Blocks {
				last := b.Instrs[len(b.Instrs)-1]
				switch last.(type) {
				case *ssa.Return, *ssa.Panic:
					if fl.CanReach(call, last) && !fl.MustPrecedeAny(isDefer, last) {
						okAll = false
					}
				}
			}
			c.Check(okAll, id, "batch-cleanup-registered:"+an.FuncName(fn), "the cleanup is registered (defer) on every path from the batch creation to an exit", fn, deferIns, "", nil)
			// the deferred closure calls it unconditionally
			okCall := true
			for _, db := range deferred.Blocks {
				if r, isRet := db.Instrs[len(db.Instrs)-1].(*ssa.Return); isRet && (db.Index == 0 || len(db.Preds) > 0) {
					okCall = okCall && (an.Flow{Fn: deferred}).MustPrecede(func(in ssa.Instruction) bool { return in == ssa.Instruction(doneCall) }, r)
				}
			}
			c.Check(okCall, id, "batch-cleanup-unconditional:"+an.FuncName(fn), "the deferred closure calls the batch cleanup on every path", deferred, doneCall, "", nil)
			// the commit error is kept: it flows somewhere besides the nil test
			kept := false
			for _, ref := range *doneCall.Referrers() {
				switch ref.(type) {
				case *ssa.BinOp, *ssa.DebugRef:
				default:
					kept = true
				}
			}
			c.Check(kept, id, "batch-cleanup-error-kept:"+an.FuncName(fn), "the error of the batch commit is not dropped: it is joined into the result of the deletion", deferred, doneCall, "", nil)
			// … exactly when the commit failed: under done() != nil every exit of the deferred closure has
			// stored an error built from it; under done() == nil no such store happens
			dt, dff := c.T(deferred), c.F(deferred)
			dErr := dt.Of(doneCall)
			isRec := func(in ssa.Instruction) bool {
				st, isSt := in.(*ssa.Store)
				return isSt && an.IsErrorType(st.Val.Type()) && strings.Contains(dt.ErrShape(st.Val)+dt.Of(st.Val), dErr)
			}
			// the joined value may be built by errors.Join(prev, fmt.Errorf("…%w", derr)): look through one call
			isRecDeep := func(in ssa.Instruction) bool {
				if isRec(in) {
					return true
				}
				st, isSt := in.(*ssa.Store)
				if !isSt || !an.IsErrorType(st.Val.Type()) {
					return false
				}
				if call, isCall := st.Val.(*ssa.Call); isCall {
					for _, a := range call.Call.Args {
						for _, v := range append(an.VariadicArgs(a), a) {
							if v != nil && strings.Contains(dt.ErrShape(v)+dt.Of(v), dErr) {
								return true
							}
						}
					}
				}
				return false
			}
			prF := dff.Prune(an.NE(dErr, "nil"))
			okRec := len(prF.Returns()) > 0
			for _, r := range prF.Returns() {
				okRec = okRec && (an.Flow{Fn: deferred, Skip: prF.Removed}).MustPrecede(isRecDeep, r)
			}
			prS := dff.Prune(an.EQ(dErr, "nil"))
			an.Instrs(deferred, func(in ssa.Instruction) {
				if isRecDeep(in) && prS.Reachable(in.Block()) {
					okRec = false
				}
			})
			c.Check(okRec, id, "batch-cleanup-error-recorded-iff-failed:"+an.FuncName(fn), "the deletion's error is extended with the commit error exactly when the commit failed", deferred, doneCall, "", nil)
			checkCommitFailureNoProgress(c, id, fn, deferred, doneCall)
		}
	}
	c.Min(id, "functions opening a write batch", nCallers, 2)
}
