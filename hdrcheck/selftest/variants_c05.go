package selftest

func init() {
	const ex = "p2p/exchange.go"
	const se = "p2p/session.go"
	add(
		Variant{Prop: "C05", Name: "degenerate-guard-weakened", File: ex, Expect: "C05.b",
			Old: "\tif to <= from.Height()+1 {", New: "\tif to < from.Height()+1 {"},
		Variant{Prop: "C05", Name: "degenerate-guard-removed", File: ex, Expect: "C05.b",
			Old: "\tif to <= from.Height()+1 {", New: "\tif to == 0 {"},
		Variant{Prop: "C05", Name: "origin-binding-removed", File: se, Expect: "C05.c",
			Old: "\tif err == nil && h[0].Height() != req.GetOrigin() {", New: "\tif err == nil && h[0].Height() == 0 {"},
		Variant{Prop: "C05", Name: "origin-binding-on-last-header", File: se, Expect: "C05.c",
			Old: "\tif err == nil && h[0].Height() != req.GetOrigin() {", New: "\tif err == nil && h[len(h)-1].Height() < req.GetOrigin() {"},
		Variant{Prop: "C05", Name: "session-without-validation", File: ex, Expect: "C05.a",
			Old: "\t\tex.metrics,\n\t\twithValidation(from),\n\t)", New: "\t\tex.metrics,\n\t)"},
		Variant{Prop: "C05", Name: "verify-skipped-for-nonzero", File: se, Expect: "C05.a",
			Old: "\tif s.from.IsZero() {\n\t\treturn headers, nil\n\t}", New: "\tif s.from.IsZero() || len(headers) == 1 {\n\t\treturn headers, nil\n\t}"},
		Variant{Prop: "C05", Name: "verify-against-first-header", File: se, Expect: "C05.a",
			Old: "\treturn header.VerifyRange(s.from, headers)", New: "\treturn header.VerifyRange(headers[0], headers)"},
		Variant{Prop: "C05", Name: "unverified-headers-delivered", File: se, Expect: "C05.a",
			Old: "\treturn s.verify(hdrs)\n}", New: "\tif _, err := s.verify(hdrs); err != nil {\n\t\tlog.Debugw(\"verify\", \"err\", err)\n\t}\n\treturn hdrs, nil\n}"},
		Variant{Prop: "C05", Name: "delivery-despite-error", File: se, Expect: "C05.a",
			Old: "\tif err != nil {\n\t\tspan.SetStatus(codes.Error, err.Error())\n\t\tlogFn := log.Errorw", New: "\tif err != nil && len(h) == 0 {\n\t\tspan.SetStatus(codes.Error, err.Error())\n\t\tlogFn := log.Errorw"},
		Variant{Prop: "C05", Name: "recover-guard-removed", File: se, Expect: "C05.d",
			Old: "\tdefer func() {\n\t\tr := recover()\n\t\tif r != nil {\n\t\t\terr = fmt.Errorf(\"PANIC processing responses: %s\", r)\n\t\t}\n\t}()\n", New: ""},
		Variant{Prop: "C05", Name: "recover-swallows-panic", File: se, Expect: "C05.d",
			Old: "\t\tif r != nil {\n\t\t\terr = fmt.Errorf(\"PANIC processing responses: %s\", r)\n\t\t}", New: "\t\tif r != nil {\n\t\t\tlog.Errorw(\"PANIC processing responses\", \"r\", r)\n\t\t}"},
		Variant{Prop: "C05", Name: "sort-removed", File: se, Expect: "C05.e",
			Old: "\tsort.Slice(headers, func(i, j int) bool {\n\t\treturn headers[i].Height() < headers[j].Height()\n\t})\n\n\tlog.Debugw(\"received headers range\"", New: "\tsort.Slice(headers[:1], func(i, j int) bool {\n\t\treturn headers[i].Height() < headers[j].Height()\n\t})\n\n\tlog.Debugw(\"received headers range\""},
		Variant{Prop: "C05", Name: "sort-descending", File: se, Expect: "C05.e",
			Old: "\t\treturn headers[i].Height() < headers[j].Height()\n\t})\n\n\tlog.Debugw(\"received headers range\"", New: "\t\treturn headers[i].Height() > headers[j].Height()\n\t})\n\n\tlog.Debugw(\"received headers range\""},
		Variant{Prop: "C05", Name: "failed-request-dropped", File: se, Expect: "C05.f",
			Old: "\t\tselect {\n\t\tcase <-s.ctx.Done():\n\t\t\treturn\n\t\tcase s.reqCh <- req:\n\t\t}\n\t\tlogFn(", New: "\t\tif errors.Is(err, errEmptyResponse) {\n\t\t\treturn\n\t\t}\n\t\tselect {\n\t\tcase <-s.ctx.Done():\n\t\t\treturn\n\t\tcase s.reqCh <- req:\n\t\t}\n\t\tlogFn("},
		Variant{Prop: "C05", Name: "loop-exits-early", File: se, Expect: "C05.b",
			Old: "\t\t\tif uint64(len(headers)) >= amount {\n\t\t\t\tbreak LOOP\n\t\t\t}", New: "\t\t\tif uint64(len(headers)) >= amount || len(res) == 0 {\n\t\t\t\tbreak LOOP\n\t\t\t}"},
		// benign
		Variant{Prop: "C05", Name: "benign-degenerate-commuted", File: ex,
			Old: "\tif to <= from.Height()+1 {", New: "\tif from.Height()+1 >= to {"},
		Variant{Prop: "C05", Name: "benign-origin-binding-commuted", File: se,
			Old: "\tif err == nil && h[0].Height() != req.GetOrigin() {", New: "\tif err == nil && req.GetOrigin() != h[0].Height() {"},
		Variant{Prop: "C05", Name: "benign-sort-commuted", File: se,
			Old: "\t\treturn headers[i].Height() < headers[j].Height()\n\t})\n\n\tlog.Debugw(\"received headers range\"", New: "\t\treturn headers[j].Height() > headers[i].Height()\n\t})\n\n\tlog.Debugw(\"received headers range\""},
			// the exit of the collecting loop carried by a flag that is false on entry (benign E7-5): the
		// loop runs at least once, what reaches the code after it is what the last trip stored
		Variant{Prop: "C05", Name: "benign-collecting-loop-exit-by-flag", File: se,
			Old: "LOOP:\n\tfor {\n\t\tselect {", New: "\tcomplete := false\n\tfor !complete {\n\t\tselect {",
			More: []Edit{{File: se, Old: "\t\t\theaders = append(headers, res...)\n\t\t\tif uint64(len(headers)) >= amount {\n\t\t\t\tbreak LOOP\n\t\t\t}\n", New: "\t\t\theaders = append(headers, res...)\n\t\t\tcomplete = uint64(len(headers)) >= amount\n"}}},
		Variant{Prop: "C05", Name: "collecting-loop-flag-set-after-first-answer", File: se, Expect: "C05.b",
			Old: "LOOP:\n\tfor {\n\t\tselect {", New: "\tcomplete := false\n\tfor !complete {\n\t\tselect {",
			More: []Edit{{File: se, Old: "\t\t\theaders = append(headers, res...)\n\t\t\tif uint64(len(headers)) >= amount {\n\t\t\t\tbreak LOOP\n\t\t\t}\n", New: "\t\t\theaders = append(headers, res...)\n\t\t\tcomplete = true\n"}}},
		Variant{Prop: "C05", Name: "collecting-loop-flag-true-on-entry", File: se, Expect: "C05.b",
			Old: "LOOP:\n\tfor {\n\t\tselect {", New: "\tcomplete := amount == 0\n\tfor !complete {\n\t\tselect {",
			More: []Edit{{File: se, Old: "\t\t\theaders = append(headers, res...)\n\t\t\tif uint64(len(headers)) >= amount {\n\t\t\t\tbreak LOOP\n\t\t\t}\n", New: "\t\t\theaders = append(headers, res...)\n\t\t\tcomplete = uint64(len(headers)) >= amount\n"}}},
	)
}
