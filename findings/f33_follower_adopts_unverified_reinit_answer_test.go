package sync

// Demonstration for finding F33 (property C19) — KNOWN, not repaired.
// Copy into /repo/sync and run: go test ./sync -run 'TestF33' -count=1   (fails on the unchanged tree)
//
// F33: "a stale one triggers exactly one head request verified against it, and concurrent callers share that single
//      request and its result". syncHead coalesces head requests whatever their options are. A stale-head caller
//      asks s.head.Head(ctx, WithTrustedHead(sbjHead)) and then adopts the answer with setLocalHead, "skipping
//      expensive verification as it was already verified by the Exchange". If a (re)initialisation request —
//      which carries no trusted head and verifies nothing — is in flight, the stale-head caller becomes its
//      follower and adopts an answer that was verified against nothing: a header that fails header.Verify
//      against the caller's subjective head becomes the subjective head.
//      Schedule (deterministic, scripted getter): caller A finds the stored head expired, its re-initialisation
//      request blocks in the getter; a fresh head at height 200 arrives through incomingNetworkHead; caller B,
//      now stale but not expired, joins A's request; the peers answer a header at height 300 that does not
//      verify: requests 1, of them with a trusted head 0; B got height 300.
//      Noticed by an eighth-round seeder (C19). Rule C19.c `shared-result-same-options`.
//      Not repaired: the follower cannot compare option funcs; telling the two kinds of request apart needs a
//      second single-flight group (or a keyed one), or a verification of every adopted head that the code
//      deliberately skips as expensive — a design decision.

import (
	"context"
	"errors"
	"sync"
	"sync/atomic"
	"testing"
	"time"

	"github.com/stretchr/testify/require"

	"github.com/celestiaorg/go-header"
	"github.com/celestiaorg/go-header/headertest"
)

type f33Getter struct {
	calls        atomic.Int64
	trustedCalls atomic.Int64
	entered      chan struct{}
	once         sync.Once
	release      chan *headertest.DummyHeader
}

var errObs = errors.New("observation: not scripted")

func (g *f33Getter) Head(
	_ context.Context,
	opts ...header.HeadOption[*headertest.DummyHeader],
) (*headertest.DummyHeader, error) {
	g.calls.Add(1)
	params := header.HeadParams[*headertest.DummyHeader]{}
	for _, opt := range opts {
		opt(&params)
	}
	g.once.Do(func() { close(g.entered) })
	answer := <-g.release
	if params.TrustedHead != nil {
		g.trustedCalls.Add(1)
		// what an Exchange does with a trusted head
		if err := header.Verify(params.TrustedHead, answer); err != nil {
			return answer, err
		}
	}
	return answer, nil
}

func (g *f33Getter) Get(context.Context, header.Hash) (*headertest.DummyHeader, error) {
	return nil, errObs
}

func (g *f33Getter) GetByHeight(context.Context, uint64) (*headertest.DummyHeader, error) {
	return nil, errObs
}

func (g *f33Getter) GetRangeByHeight(
	context.Context,
	*headertest.DummyHeader,
	uint64,
) ([]*headertest.DummyHeader, error) {
	return nil, errObs
}

type f33Ctx struct {
	context.Context
	once  sync.Once
	asked func()
}

func (c *f33Ctx) Done() <-chan struct{} {
	c.once.Do(c.asked)
	return c.Context.Done()
}

func TestF33_StaleHeadCallerDoesNotAdoptAnUnverifiedAnswer(t *testing.T) {
	ctx, cancel := context.WithTimeout(context.Background(), 30*time.Second)
	t.Cleanup(cancel)

	const trustingPeriod = 5 * time.Second // the suite's headers are 10s old: expired

	suite := headertest.NewTestSuite(t)
	store := headertest.NewStore[*headertest.DummyHeader](t, suite, 5)
	stored, err := store.Head(ctx)
	require.NoError(t, err)

	getter := &f33Getter{entered: make(chan struct{}), release: make(chan *headertest.DummyHeader, 8)}
	syncer, err := NewSyncer[*headertest.DummyHeader](
		getter,
		store,
		headertest.NewDummySubscriber(),
		WithTrustingPeriod(trustingPeriod),
		WithRecencyThreshold(time.Nanosecond), // any head is stale
	)
	require.NoError(t, err)

	old := NetworkHeadRequestTimeout
	NetworkHeadRequestTimeout = 20 * time.Second
	t.Cleanup(func() { NetworkHeadRequestTimeout = old })

	// caller A: the stored head is expired -> re-initialisation: a request WITHOUT a trusted head
	doneA := make(chan struct{})
	go func() {
		defer close(doneA)
		_, _ = syncer.Head(ctx)
	}()
	<-getter.entered

	// meanwhile a valid, not expired head arrives (as from gossip) and becomes the subjective head
	fresh := &headertest.DummyHeader{
		Chainid:      stored.ChainID(),
		PreviousHash: headertest.RandBytes(32),
		HeightI:      200,
		Timestamp:    time.Now().Add(-time.Second).UTC(),
	}
	require.NoError(t, syncer.incomingNetworkHead(ctx, fresh))
	sbj, err := syncer.localHead(ctx)
	require.NoError(t, err)
	require.Equal(t, fresh.Hash(), sbj.Hash())

	// caller B: its subjective head (fresh) is not expired but stale -> it wants one head request
	// verified against fresh
	var arrived sync.WaitGroup
	arrived.Add(1)
	doneB := make(chan struct{})
	var headB *headertest.DummyHeader
	var errB error
	go func() {
		defer close(doneB)
		headB, errB = syncer.Head(&f33Ctx{Context: ctx, asked: arrived.Done})
	}()
	arrived.Wait()
	time.Sleep(300 * time.Millisecond)

	// the peers answer with a header that does NOT verify against fresh
	bad := &headertest.DummyHeader{
		Chainid:       stored.ChainID(),
		PreviousHash:  headertest.RandBytes(32),
		HeightI:       300,
		Timestamp:     time.Now().UTC(),
		VerifyFailure: true,
	}
	require.Error(t, header.Verify(fresh, bad))
	for i := 0; i < 8; i++ {
		getter.release <- bad // whoever asks gets the same answer
	}

	for _, ch := range []chan struct{}{doneA, doneB} {
		select {
		case <-ch:
		case <-time.After(10 * time.Second):
			t.Fatal("callers did not return")
		}
	}

	require.NoError(t, errB)
	require.NotNil(t, headB)
	t.Logf("requests: %d, of them with a trusted head: %d; B got height %d",
		getter.calls.Load(), getter.trustedCalls.Load(), headB.Height())

	local, err := syncer.localHead(ctx)
	require.NoError(t, err)
	require.NotEqual(t, bad.Hash(), local.Hash(),
		"a header that does not verify against the subjective head became the subjective head")
	require.Equal(t, fresh.Hash(), headB.Hash(), "B has to fall back to its subjective head")
	require.EqualValues(t, 1, getter.trustedCalls.Load(),
		"the stale head must trigger one head request verified against it")
}
