package an

import (
	"os"
)

// Normalized records what the inlining normalisation did for a load.
type Normalized struct {
	Rounds int
	Notes  []string
}

// LoadNormalized loads the repository (with the go/packages loader, or the fast loader when fast
// is set) and, when the tree declares functions that are not in the inventory the rules were
// confirmed against, inlines the calls to them (normalize.go) and loads the result instead. If
// the inlined sources do not type-check the original program is analysed as it is.
func LoadNormalized(dir string, overlay map[string][]byte, fast bool) (*Prog, error) {
	load := func(ov map[string][]byte) (*Prog, error) {
		if fast {
			return LoadFast(dir, ov)
		}
		return Load(LoadOpts{Dir: dir, Overlay: ov})
	}
	p, err := load(overlay)
	if err != nil {
		return nil, err
	}
	known := Inventory()
	if len(known) == 0 {
		return p, nil
	}
	cur := overlay
	norm := &Normalized{}
	// renamed types, functions and fields first: they get their inventory name back
	for pass := 0; pass < 3; pass++ {
		again := false
		read := func(path string) ([]byte, error) {
			if b, ok := cur[path]; ok {
				return b, nil
			}
			return os.ReadFile(path)
		}
		if ov, notes := RenameOverlay(p, read); len(ov) > 0 {
			next := map[string][]byte{}
			for k, v := range cur {
				next[k] = v
			}
			for k, v := range ov {
				next[k] = v
			}
			if p2, err := load(next); err == nil {
				p, cur = p2, next
				norm.Notes = append(norm.Notes, notes...)
				norm.Rounds++
				again = true
			} else {
				norm.Notes = append(norm.Notes, "renaming back did not type-check, ignored: "+firstLine(err.Error()))
			}
		}
		if !again {
			break
		}
	}
	for round := 0; round < 3; round++ {
		read := func(path string) ([]byte, error) {
			if b, ok := cur[path]; ok {
				return b, nil
			}
			return os.ReadFile(path)
		}
		ov, notes := NormalizeOverlay(p, known, read)
		norm.Notes = append(norm.Notes, notes...)
		if len(ov) == 0 {
			break
		}
		next := map[string][]byte{}
		for k, v := range cur {
			next[k] = v
		}
		for k, v := range ov {
			next[k] = v
		}
		p2, err := load(next)
		if err != nil {
			norm.Notes = append(norm.Notes, "inlined sources did not type-check, analysing the tree as it is: "+firstLine(err.Error()))
			break
		}
		p, cur = p2, next
		norm.Rounds++
	}
	p.Norm = norm
	return p, nil
}

func firstLine(s string) string {
	// the header line and the first few reported errors
	n := 0
	for i := 0; i < len(s); i++ {
		if s[i] == '\n' {
			n++
			if n == 5 {
				return flat(s[:i])
			}
		}
	}
	return flat(s)
}

func flat(s string) string {
	b := []byte(s)
	for i := range b {
		if b[i] == '\n' {
			b[i] = '|'
		}
	}
	return string(b)
}
