package rules

import (
	"sort"
	"strings"

	"golang.org/x/tools/go/ssa"

	"hdrcheck/an"
)

// constErrTable is a package-level `map[K]error` that is built once, by a map literal in the package
// initialiser, and never written afterwards: its content is known statically.
type constErrTable struct {
	entries map[string]string // key term → error shape of the value
	commaOK *ssa.Extract      // the `ok` of a two-valued lookup (nil for `m[k]`)
	lookup  *ssa.Lookup
}

// constErrTableLookup resolves `v` when it is the value of a lookup in such a table.
func constErrTableLookup(c *an.Ctx, v ssa.Value) *constErrTable {
	v = an.Unwrap(v)
	var lk *ssa.Lookup
	switch x := v.(type) {
	case *ssa.Lookup:
		lk = x
	case *ssa.Extract:
		if l, ok := x.Tuple.(*ssa.Lookup); ok && x.Index == 0 {
			lk = l
		}
	}
	if lk == nil {
		return nil
	}
	g := an.GlobalLoad(lk.X)
	if g == nil || g.Pkg == nil {
		return nil
	}
	init := g.Pkg.Func("init")
	if init == nil {
		return nil
	}
	// one store to the global in the whole module: the literal in the initialiser
	var mk *ssa.MakeMap
	stores := 0
	seen := map[*ssa.Function]bool{}
	for _, fn := range append(c.P.RepoFuncs(), init) {
		if seen[fn] {
			continue
		}
		seen[fn] = true
		an.Instrs(fn, func(in ssa.Instruction) {
			switch x := in.(type) {
			case *ssa.Store:
				if x.Addr == ssa.Value(g) {
					stores++
					if m, ok := x.Val.(*ssa.MakeMap); ok && fn == init {
						mk = m
					}
				}
			case *ssa.MapUpdate:
				if an.GlobalLoad(x.Map) == g {
					stores += 2 // the table is written outside its literal
				}
			case *ssa.Call:
				if b, ok := x.Call.Value.(*ssa.Builtin); ok && (b.Name() == "delete" || b.Name() == "clear") && len(x.Call.Args) > 0 && an.GlobalLoad(x.Call.Args[0]) == g {
					stores += 2
				}
			}
		})
	}
	if mk == nil || stores != 1 {
		return nil
	}
	it := c.T(init)
	tb := &constErrTable{entries: map[string]string{}, lookup: lk}
	for _, r := range *mk.Referrers() {
		if mu, ok := r.(*ssa.MapUpdate); ok && mu.Map == ssa.Value(mk) {
			k, isConst := an.Unwrap(mu.Key).(*ssa.Const)
			if !isConst || k.Value == nil {
				return nil
			}
			tb.entries[k.Value.ExactString()] = it.ErrShape(mu.Value)
		}
	}
	if lk.CommaOk && lk.Referrers() != nil {
		for _, r := range *lk.Referrers() {
			if e, ok := r.(*ssa.Extract); ok && e.Index == 1 {
				tb.commaOK = e
			}
		}
	}
	return tb
}

// checkStatusTable decides a return of convertStatusCodeToError whose value comes out of a table: the
// only key with a nil value is OK, and a code that is not in the table does not yield the map's zero
// value (nil): the lookup is two-valued and the return is guarded by its `ok`.
func checkStatusTable(c *an.Ctx, conv *ssa.Function, r *ssa.Return, codeOK string) {
	t, ff := c.T(conv), c.F(conv)
	rule := "only status OK converts to a nil error (unknown codes are errors)"
	tb := constErrTableLookup(c, errResult(r))
	if tb == nil {
		c.Fail("C13.b", "status-ok-only", rule, conv, r, "the returned error "+t.ErrShape(errResult(r))+" is neither nil, nor a constructed error, nor read from a constant table", ff.AtInstr(r))
		return
	}
	var nilKeys []string
	for k, sh := range tb.entries {
		if sh == "nil" || strings.HasPrefix(sh, "prop(") {
			nilKeys = append(nilKeys, k)
		}
	}
	sort.Strings(nilKeys)
	okKeys := len(nilKeys) == 0 || (len(nilKeys) == 1 && nilKeys[0] == codeOK)
	c.Check(okKeys && t.Of(tb.lookup.Index) == "p0", "C13.b", "status-ok-only", rule, conv, r, "table keys with a nil (or unclassified) value: "+strings.Join(nilKeys, ","), nil)
	fs := ff.AtInstr(r)
	c.Check(tb.commaOK != nil && fs.Has(an.B(t.Of(tb.commaOK))), "C13.b", "unknown-status-is-error", "a status code outside the table does not convert to the map's zero value (nil)", conv, r, "", fs)
}
