package store

// Demonstration for finding F9 (property C14, also C08).
// Copy into /repo/store and run: go test ./store -run 'TestF9' -count=1
//
// F9: deleteSingle wraps a handler's error with %w, and both deletion drivers
//     treat every error that errors.Is(…, datastore.ErrNotFound) as "this header
//     is already missing" and go on. A handler that fails with an error wrapping
//     datastore.ErrNotFound (natural for a handler that cleans up its own
//     datastore-backed index) is therefore swallowed: DeleteRange returns nil,
//     the tail moves past the height, and the header stays readable on disk.
//     Found by a bug-seeding sub-agent while probing the clean tree (sequential
//     path); the parallel worker has the same classification.

import (
	"context"
	"fmt"
	"testing"
	"time"

	"github.com/ipfs/go-datastore"
	"github.com/ipfs/go-datastore/sync"
	"github.com/stretchr/testify/require"

	"github.com/celestiaorg/go-header/headertest"
)

func TestF9_HandlerErrorWrappingNotFoundIsNotSwallowed(t *testing.T) {
	ctx, cancel := context.WithTimeout(context.Background(), 5*time.Second)
	t.Cleanup(cancel)
	suite := headertest.NewTestSuite(t)
	ds := sync.MutexWrap(datastore.NewMapDatastore())
	store := NewTestStore(t, ctx, ds, suite.Head(), WithWriteBatchSize(5))

	require.NoError(t, store.Append(ctx, suite.GenDummyHeaders(20)...))
	require.NoError(t, store.Sync(ctx))

	tail, err := store.Tail(ctx)
	require.NoError(t, err)
	failAt := tail.Height() + 4
	store.OnDelete(func(_ context.Context, h uint64) error {
		if h == failAt {
			return fmt.Errorf("my index for %d: %w", h, datastore.ErrNotFound)
		}
		return nil
	})

	err = store.DeleteRange(ctx, tail.Height(), tail.Height()+10)
	require.Error(t, err, "a failing handler must make DeleteRange fail")

	// the header whose handler failed is still there and is the new tail
	_, err = store.GetByHeight(ctx, failAt)
	require.NoError(t, err)
	newTail, err := store.Tail(ctx)
	require.NoError(t, err)
	require.Equal(t, failAt, newTail.Height(), "the tail must stop at the header whose handler failed")
}
