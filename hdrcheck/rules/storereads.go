package rules

import (
	"strings"

	"golang.org/x/tools/go/ssa"

	"hdrcheck/an"
)

// checkStoreReadsBounded: Store.GetByHeight waits for a height above the store's own height to be
// appended. The tail computation runs inside Head()/Start, where nobody appends: it may ask the
// store by height only for heights it has shown to be at or below store.Height() — otherwise the
// call parks until the context ends and Head()/Start is wedged. For every `s.store.GetByHeight(ctx, h)`
// in fn a fact `h < store.Height()` or `h <= store.Height()` must hold at the call.
func checkStoreReadsBounded(c *an.Ctx, id string, fn *ssa.Function) int {
	t, ff := c.T(fn), c.F(fn)
	onStore := func(s string) bool { return s == "p0.store" || strings.HasPrefix(s, "p0.store.") }
	storeHeights := map[string]bool{}
	for _, hc := range invokesOf(t, "Height", onStore) {
		storeHeights[t.Of(hc)] = true
	}
	n := 0
	for _, gc := range invokesOf(t, "GetByHeight", onStore) {
		if len(gc.Call.Args) != 2 {
			continue
		}
		n++
		arg := t.Of(gc.Call.Args[1])
		fs := ff.AtInstr(gc)
		ok := false
		for _, f := range fs {
			if f.Op != "LT" {
				continue
			}
			// arg < H   or   ¬(H < arg)
			if (f.Pos && f.A == arg && storeHeights[f.B]) || (!f.Pos && f.B == arg && storeHeights[f.A]) {
				ok = true
			}
		}
		c.Check(ok, id, "store-read-bounded:"+an.FuncName(fn), "the tail computation asks the store by height only for heights not above the store's own height (a read above it waits for a header nobody appends while Head()/Start is computing the tail)", fn, gc, "height "+an.Stable(arg), fs)
	}
	return n
}
