package sync

// Demonstrations for findings F1 and F2 (property C16).
// Copy into /repo/sync and run: go test ./sync -run 'TestF1|TestF2' -count=1
//
// F1: parameters accepted by Validate (the defaults leave blockTime == 0) make
//     tail estimation divide by zero (Syncer.Start on an empty store panics).
// F2: for a slow/halted chain head.Height()-headersToStore wraps around.

import (
	"context"
	"testing"
	"time"

	"github.com/ipfs/go-datastore"
	dssync "github.com/ipfs/go-datastore/sync"
	"github.com/stretchr/testify/require"

	"github.com/celestiaorg/go-header/headertest"
	"github.com/celestiaorg/go-header/local"
	"github.com/celestiaorg/go-header/store"
)

func TestF1_DefaultParamsStartDoesNotPanic(t *testing.T) {
	ctx, cancel := context.WithTimeout(context.Background(), 5*time.Second)
	defer cancel()
	suite := headertest.NewTestSuite(t)
	remote := headertest.NewStore[*headertest.DummyHeader](t, suite, 20)
	ds := dssync.MutexWrap(datastore.NewMapDatastore())
	localStore, err := store.NewStore[*headertest.DummyHeader](ds)
	require.NoError(t, err)
	require.NoError(t, localStore.Start(ctx))
	defer localStore.Stop(ctx) //nolint:errcheck

	syncer, err := NewSyncer[*headertest.DummyHeader](local.NewExchange(remote), localStore, headertest.NewDummySubscriber())
	require.NoError(t, err) // the default parameters pass Validate
	require.NotPanics(t, func() { _ = syncer.Start(ctx) })
	_ = syncer.Stop(ctx)
}

func TestF1_FindTailHeightZeroBlockTime(t *testing.T) {
	suite := headertest.NewTestSuite(t)
	hs := suite.GenDummyHeaders(2)
	oldTail, head := hs[0], hs[1]
	oldTail.Timestamp = time.Now().Add(-10 * time.Hour)
	head.Timestamp = time.Now()
	p := DefaultParameters()
	p.PruningWindow = time.Hour
	s := &Syncer[*headertest.DummyHeader]{Params: &p}
	require.NotPanics(t, func() { _, _ = s.findTailHeight(context.Background(), oldTail, head) })
}

func TestF2_FindTailHeightNoWrapAround(t *testing.T) {
	suite := headertest.NewTestSuite(t)
	hs := suite.GenDummyHeaders(100)
	oldTail, head := hs[0], hs[99] // heights 1 (well, suite start) and +99
	oldTail.Timestamp = time.Now().Add(-10 * time.Hour)
	head.Timestamp = time.Now()
	p := DefaultParameters()
	p.PruningWindow = time.Hour
	p.blockTime = time.Second // 3600 headers per window, chain has ~100
	st := headertest.NewStore[*headertest.DummyHeader](t, headertest.NewTestSuite(t), 1)
	s := &Syncer[*headertest.DummyHeader]{Params: &p, store: syncStore[*headertest.DummyHeader]{Store: st}}
	got, err := s.findTailHeight(context.Background(), oldTail, head)
	require.NoError(t, err)
	require.LessOrEqual(t, got, head.Height(), "tail height wrapped around")
	require.GreaterOrEqual(t, got, uint64(1))
}
