#!/bin/bash
# benign_check.sh <patch>... — applies each behaviour-preserving patch to /repo, runs every check,
# prints what the normalisation did and anything reported, undoes the patch straight afterwards.
for P in "$@"; do
  case "$P" in /*) ;; *) P="$PWD/$P";; esac
  echo "=== $(basename $P)"
  [ -z "$(git -C /repo status --porcelain)" ] || { echo "REPO NOT CLEAN"; exit 2; }
  if ! git -C /repo apply "$P"; then echo "  APPLY FAILED"; continue; fi
  /verif/bin/hdrcheck -property all -verif /tmp/benign_verif 2>&1 | grep -E "^  (inlined|call to new|new function|inlined sources)|VIOLATED|UNDECIDED|LOAD ERROR" | sed 's/^ */  /' | sort | uniq -c | sort -rn | cut -c1-230 | head -${MAXL:-14}
  git -C /repo checkout -- .
done
