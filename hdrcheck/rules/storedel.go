package rules

import (
	"strings"

	"golang.org/x/tools/go/ssa"

	"hdrcheck/an"
)

// Shared analysis of store/store_delete.go used by C08, C14 (and C17).

type delFns struct {
	deleteRange, raw, seq, par, single, setTail, setHead, wipe, deinit, syncFn, onDelete, lookup *ssa.Function
}

func resolveDelete(c *an.Ctx, id string) (*delFns, bool) {
	p := c.P
	d := &delFns{
		deleteRange: p.Method("store", "Store", "DeleteRange"),
		raw:         p.Method("store", "Store", "deleteRangeRaw"),
		seq:         p.Method("store", "Store", "deleteSequential"),
		par:         p.Method("store", "Store", "deleteParallel"),
		single:      p.Method("store", "Store", "deleteSingle"),
		setTail:     p.Method("store", "Store", "setTail"),
		setHead:     p.Method("store", "Store", "setHead"),
		wipe:        p.Method("store", "Store", "wipe"),
		deinit:      p.Method("store", "Store", "deinit"),
		syncFn:      p.Method("store", "Store", "Sync"),
		onDelete:    p.Method("store", "Store", "OnDelete"),
		lookup:      p.Method("store", "Store", "getByHeight"),
	}
	ok := true
	for name, f := range map[string]*ssa.Function{
		"store.(*Store).DeleteRange": d.deleteRange, "store.(*Store).deleteRangeRaw": d.raw, "store.(*Store).deleteSequential": d.seq,
		"store.(*Store).deleteParallel": d.par, "store.(*Store).deleteSingle": d.single, "store.(*Store).setTail": d.setTail,
		"store.(*Store).setHead": d.setHead, "store.(*Store).wipe": d.wipe, "store.(*Store).deinit": d.deinit, "store.(*Store).Sync": d.syncFn,
		"store.(*Store).OnDelete": d.onDelete, "store.(*Store).getByHeight": d.lookup,
	} {
		ok = c.Need(f, id, name) && ok
	}
	return d, ok
}

// removal is one "a header becomes unreadable in some tier" event.
type removal struct {
	Kind  string // ds-hash, ds-height, cache, index-cache, pending
	Instr *ssa.Call
	Arg   string // key / height terms
}

// removalsIn classifies the removal events of fn (methods of Store or closures of them; p0 = store receiver or free var s).
func removalsIn(c *an.Ctx, fn *ssa.Function) []removal {
	t := c.T(fn)
	var out []removal
	an.Instrs(fn, func(in ssa.Instruction) {
		call, ok := in.(*ssa.Call)
		if !ok {
			return
		}
		full := an.StaticFullName(&call.Call)
		cal := an.StaticCallee(&call.Call)
		name := ""
		if cal != nil {
			name = an.FuncName(cal)
		}
		switch {
		case strings.HasSuffix(full, "keytransform.Datastore).Delete") || (call.Call.IsInvoke() && call.Call.Method.Name() == "Delete" && strings.Contains(call.Call.Value.Type().String(), "datastore")):
			args := call.Call.Args
			key := t.Of(args[len(args)-1])
			kind := "ds-other"
			if kc, isCall := args[len(args)-1].(*ssa.Call); isCall {
				if kf := an.StaticCallee(&kc.Call); kf != nil {
					switch an.FuncName(kf) {
					case "store.hashKey", "store.headerKey":
						kind, key = "ds-hash", t.Of(kc.Call.Args[0])
					case "store.heightKey":
						kind, key = "ds-height", t.Of(kc.Call.Args[0])
					}
				}
			} else if strings.HasSuffix(key, "store.headKey") || strings.HasSuffix(key, "store.tailKey") {
				kind = "ds-pointer"
			}
			out = append(out, removal{kind, call, key})
		case strings.Contains(full, "TwoQueueCache") && (strings.HasSuffix(full, ").Remove") || strings.HasSuffix(full, ").Purge")):
			recv := t.Of(call.Call.Args[0])
			kind := "cache"
			if strings.Contains(recv, "heightIndex") {
				kind = "index-cache"
			}
			if strings.HasSuffix(full, ").Purge") {
				kind += "-purge"
			}
			arg := ""
			if len(call.Call.Args) > 1 {
				arg = t.Of(call.Call.Args[1])
			}
			out = append(out, removal{kind, call, arg})
		case name == "store.(*batch).DeleteRange":
			out = append(out, removal{"pending", call, t.Of(call.Call.Args[1]) + ".." + t.Of(call.Call.Args[2])})
		case isBuiltinDeleteOnBatch(call) && fn.Signature.Recv() != nil && strings.Contains(fn.Signature.Recv().Type().String(), "store.batch["):
			// inside a method of the pending batch itself: the call of that method is the event
		case isBuiltinDeleteOnBatch(call):
			// a removal from the pending batch's maps written out in place (a spliced-in helper)
			out = append(out, removal{"pending", call, t.Of(call.Call.Args[1]) + ".." + t.Of(call.Call.Args[1])})
		case name == "store.(*batch).Reset":
			out = append(out, removal{"pending-reset", call, ""})
		case cal != nil && cal.Blocks != nil && cal.Signature.Recv() != nil && strings.HasSuffix(cal.Signature.Recv().Type().String(), "store.batch[H]") && deletesFromMaps(cal):
			// any other method of the pending batch that deletes from its maps (a `Pop`, a `Take`, …)
			arg := ""
			if len(call.Call.Args) > 1 {
				arg = t.Of(call.Call.Args[1])
			}
			out = append(out, removal{"pending", call, arg + ".." + arg})
		}
	})
	return out
}
