package rules

import (
	"strings"

	"golang.org/x/tools/go/ssa"

	"hdrcheck/an"
)

// deletesFromMaps: the function contains a delete() or a clear() of a map.
func deletesFromMaps(fn *ssa.Function) bool {
	hit := false
	for _, f := range append([]*ssa.Function{fn}, fn.AnonFuncs...) {
		an.Instrs(f, func(in ssa.Instruction) {
			if call, ok := in.(*ssa.Call); ok {
				if b, isB := call.Call.Value.(*ssa.Builtin); isB && (b.Name() == "delete" || b.Name() == "clear") {
					hit = true
				}
				if strings.HasPrefix(an.StaticFullName(&call.Call), "maps.DeleteFunc") {
					hit = true
				}
			}
		})
	}
	return hit
}

// checkNotifyAlwaysLooks (C12.c): "returns the header as soon as it has been appended … whether or not the
// header is contiguous with Head". For a header above a gap the notification is the only wake-up there
// is; Notify looks at the waiter table, under its lock, for every height it is given. A short cut taken
// on a counter of parked readers ("nobody waits") that is raised after the reader's registration and its
// last look-up drops the one notification that reader was going to get.
func checkNotifyAlwaysLooks(c *an.Ctx, id string, notifyPub *ssa.Function) {
	t, ff := c.T(notifyPub), c.F(notifyPub)
	isLock := mutexOp(t, "heightSubsLk", "Lock")
	fl := an.Flow{Fn: notifyPub}
	n := 0
	for _, r := range ff.Returns() {
		n++
		fs := ff.AtRefined(r.Block())
		// leaving without the lock is fine only when there is nothing to notify
		ok := fl.MustPrecede(isLock, r) || fs.Has(an.EQ("len(p1)", "0")) || fs.Has(an.EQ("0", "len(p1)"))
		c.Check(ok, id, "notify-always-looks", "Notify looks at the waiter table, under its lock, for every height it is given: no way out before the lock that depends on anything but the heights themselves", notifyPub, r, "", fs)
	}
	c.Min(id, "returns of Notify", n, 1)
	// … and for EVERY height: no trip of the loop over the heights skips the look at the table. A height at or
	// below the published one is no exception — Init publishes the height of the first batch without
	// releasing the reader parked at exactly that height, who depends on the Notify that follows.
	if nf := c.P.Method("store", "heightSub", "notify"); nf != nil {
		m := 0
		for _, nc := range callsTo(notifyPub, nf) {
			h := loopHeaderOf(nc.Block())
			if h == nil {
				continue
			}
			m++
			c.Check(everyTripCrosses(h, an.IsCallTo(nf)) && loopLeftOnlyAtHeader(h), id, "notify-skips-no-height", "Notify looks every height it is given up in the waiter table: no trip of its loop skips the look-up (the reader parked at a height that Init has just published is released by nothing else)", notifyPub, nc, "", nil)
		}
		c.Min(id, "look-ups in the loop of Notify", m, 1)
	}
}

// checkClientMetricsArithmetic (C05.d): "no peer response can crash the client". The client's metrics
// record what a peer delivered — sizes, counts, durations of responses, all peer-controlled, a count of
// zero included — from goroutines nothing recovers. Their arithmetic is put under the same obligations
// as the decoding path: no division whose divisor is not proven non-zero.
func checkClientMetricsArithmetic(c *an.Ctx, id string) {
	named := c.P.NamedType("p2p", "exchangeMetrics")
	if named == nil {
		c.Undecided(id, "anchor:p2p.exchangeMetrics", "the client metrics type must resolve", nil, nil, "type not found")
		return
	}
	var fns []*ssa.Function
	for i := 0; i < named.NumMethods(); i++ {
		if m := c.P.SSA.FuncValue(named.Method(i)); m != nil && m.Blocks != nil {
			fns = append(fns, m)
			fns = append(fns, m.AnonFuncs...)
		}
	}
	checkArith(c, id, fns, map[string]bool{"div": true}, nil, nil)
	c.Min(id, "methods of the client metrics", len(fns), 2)
}

// isBuiltinDeleteOnBatch: delete(m, k) where m is one of the maps of the pending batch.
func isBuiltinDeleteOnBatch(call *ssa.Call) bool {
	b, ok := call.Call.Value.(*ssa.Builtin)
	if !ok || b.Name() != "delete" || len(call.Call.Args) != 2 {
		return false
	}
	u, isU := call.Call.Args[0].(*ssa.UnOp)
	if !isU {
		return false
	}
	fa, isFA := u.X.(*ssa.FieldAddr)
	if !isFA {
		return false
	}
	return strings.Contains(fa.X.Type().String(), "store.batch[")
}
