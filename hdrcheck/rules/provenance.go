package rules

import (
	"go/types"
	"strings"

	"golang.org/x/tools/go/ssa"

	"hdrcheck/an"
)

// Result provenance ("a hit is real"): a lookup of the form f(...) (V, error) may
// return a nil error only together with a value that a tier actually produced on
// that path — the dual of error discipline (a success is never manufactured).
// For every return of fn whose error is nil (by shape, or by a fact at the return)
// the value must be justified by one of:
//   - delegation: value and error are the two components of one call's result;
//   - a comma-ok hit:   v, ok := X(...)  with ok holding on the path;
//   - a checked call:   v, err := X(...) with err == nil holding on the path;
//   - a non-zero test:  !v.IsZero() holding on the path;
//   - a true boolean:   the returned bool is known true on the path;
//   - a decoded header: v = header.New(); v.UnmarshalBinary(..) == nil on the path;
//   - a loaded pointer: v = *p with p != nil on the path;
//   - a freshly made slice (its filling is a separate obligation, C04.e);
//   - a phi, each operand justified on its own edge.
//
// A zero constant with a nil error, or a value whose producing test is negated, is a
// manufactured hit.
type provSpec struct {
	id    string
	names []string // exact function names
	min   int
	why   string
}

var provTable = map[string][]provSpec{
	"C04": {{"C04.a", []string{"store.(*Store).Get", "store.(*Store).GetByHeight", "store.(*Store).getByHeight", "store.(*Store).Has", "store.(*Store).Head", "store.(*Store).Tail",
		"store.(*Store).get", "store.(*Store).GetRange", "store.(*Store).GetRangeByHeight", "store.(*Store).getRangeByHeight", "store.(*heightIndexer).HashByHeight", "store.(*Store).readByKey"}, 10,
		"Get/GetByHeight/Has/Head/Tail report a hit only for a header a tier produced"}},
	"C05": {{"C05.a", []string{"p2p.(*Exchange).GetRangeByHeight", "p2p.(*session).getRangeByHeight", "p2p.(*session).processResponses", "p2p.(*session).verify"}, 2, "a range is returned without error only as produced by the verified session"}},
	"C12": {{"C12.a", []string{"store.(*Store).GetByHeight", "store.(*Store).getByHeight"}, 3, "a by-height read reports success only with the header found"}},
	"C13": {{"C13.e", []string{"p2p.(*Exchange).Get", "p2p.(*Exchange).GetByHeight", "p2p.(*Exchange).request"}, 2, "Get/GetByHeight return the first element of a checked response"}},
	"C19": {{"C19.c", []string{"sync.(*Syncer).Head", "sync.(*Syncer).localHead", "sync.(*syncHead).Head", "sync.(*syncStore).Head"}, 4, "Head() hands out a header some source produced without error"}},
}

func runProvTable(prop string, c *an.Ctx) {
	for _, ps := range provTable[prop] {
		var fns []*ssa.Function
		for _, fn := range c.P.RepoFuncs() {
			for _, nm := range ps.names {
				if an.FuncName(fn) == nm {
					fns = append(fns, fn)
				}
			}
		}
		n := checkResultProvenance(c, ps.id, fns...)
		c.Min(ps.id, "successful returns with justified provenance ("+ps.why+")", n, ps.min)
	}
}

func checkResultProvenance(c *an.Ctx, id string, fns ...*ssa.Function) int {
	n := 0
	for _, fn := range fns {
		if fn == nil || fn.Blocks == nil {
			continue
		}
		res := fn.Signature.Results()
		if res.Len() != 2 || !an.IsErrorType(res.At(1).Type()) {
			continue
		}
		t, ff := c.T(fn), c.F(fn)
		for _, r := range ff.Returns() {
			if len(r.Results) != 2 {
				continue
			}
			v, e := r.Results[0], r.Results[1]
			fs := ff.AtRefined(r.Block())
			// delegation
			if ev, ok := derefExtract(t, e); ok {
				if vv, ok2 := derefExtract(t, v); ok2 && vv.Tuple == ev.Tuple && vv.Index == 0 {
					n++
					c.Ok(id, "hit-is-real:"+an.FuncName(fn), "a lookup returns a nil error only with a value a tier produced on that path", fn, r, "delegates to "+an.Stable(t.Of(ev.Tuple)), nil)
					continue
				}
			}
			if t.ErrShape(e) != "nil" && !fs.Has(an.EQ(t.Of(e), "nil")) {
				continue // an error return
			}
			n++
			why, ok := justified(t, ff, fn, v, fs, r, 0)
			c.Check(ok, id, "hit-is-real:"+an.FuncName(fn), "a lookup returns a nil error only with a value a tier produced on that path", fn, r, why, fs)
		}
	}
	return n
}

// hasIsZero: the type (or its type-parameter constraint) offers IsZero() bool.
func hasIsZero(tp types.Type) bool {
	if tpar, ok := tp.(*types.TypeParam); ok {
		if iface, ok := tpar.Constraint().Underlying().(*types.Interface); ok {
			for i := 0; i < iface.NumMethods(); i++ {
				if iface.Method(i).Name() == "IsZero" {
					return true
				}
			}
		}
		return false
	}
	ms := types.NewMethodSet(tp)
	return ms.Lookup(nil, "IsZero") != nil
}

func derefExtract(t *an.Terms, v ssa.Value) (*ssa.Extract, bool) {
	if d := t.Deref(v); d != nil {
		v = d
	}
	ex, ok := v.(*ssa.Extract)
	return ex, ok
}

func justified(t *an.Terms, ff *an.FuncFacts, fn *ssa.Function, v ssa.Value, fs an.FactSet, at ssa.Instruction, depth int) (string, bool) {
	if depth > 3 {
		return "too deep", false
	}
	if d := t.Deref(v); d != nil {
		v = d
	}
	term := t.Of(v)
	if fs.Has(an.NotB("IsZero(" + term + ")")) {
		return "non-zero on the path", true
	}
	if b, isB := v.Type().Underlying().(*types.Basic); isB && b.Kind() == types.Bool && fs.Has(an.B(term)) {
		return "true on the path", true
	}
	// the constant true written out where a tier's own answer is known to be true on the path
	// (`if tier.Has(x) { return true, nil }` for `if ok := tier.Has(x); ok { return ok, nil }`)
	if k, isK := v.(*ssa.Const); isK && k.Value != nil && k.Value.ExactString() == "true" {
		hit := ""
		an.Instrs(fn, func(in ssa.Instruction) {
			call, isCall := in.(*ssa.Call)
			if !isCall {
				return
			}
			if bt, isBool := call.Type().Underlying().(*types.Basic); isBool && bt.Kind() == types.Bool && fs.Has(an.B(t.Of(call))) {
				hit = an.Stable(t.Of(call))
			}
		})
		if hit != "" {
			return "true where " + hit + " is true", true
		}
	}
	switch x := v.(type) {
	case *ssa.Extract:
		call, isCall := x.Tuple.(*ssa.Call)
		if !isCall {
			return "tuple of " + an.Stable(t.Of(x.Tuple)), false
		}
		tup, _ := call.Type().(*types.Tuple)
		if tup != nil && x.Index == 0 {
			for i := 1; i < tup.Len(); i++ {
				tt := tup.At(i).Type()
				comp := t.Of(call) + "#" + itoa(i)
				if bb, isB := tt.Underlying().(*types.Basic); isB && bb.Kind() == types.Bool && fs.Has(an.B(comp)) {
					return "comma-ok hit of " + an.Stable(t.Of(call)), true
				}
				if an.IsErrorType(tt) && fs.Has(an.EQ(comp, "nil")) {
					return "checked result of " + an.Stable(t.Of(call)), true
				}
			}
		}
		return "result of " + an.Stable(t.Of(call)) + " without its test on the path", false
	case *ssa.Call:
		full := an.StaticFullName(&x.Call)
		if strings.HasSuffix(full, "header.New") || strings.Contains(full, "go-header.New") {
			ok := false
			an.Instrs(fn, func(in ssa.Instruction) {
				uc, isCall := in.(*ssa.Call)
				if !isCall || !uc.Call.IsInvoke() || uc.Call.Method.Name() != "UnmarshalBinary" {
					return
				}
				if uc.Call.Value == ssa.Value(x) && fs.Has(an.EQ(t.Of(uc), "nil")) {
					ok = true
				}
			})
			return "decoded header", ok
		}
		if an.IsErrorType(x.Type()) {
			return "error value", false
		}
		// a single-valued helper: a boolean must be known true and a value that can be zero
		// (it has an IsZero method: the header type) must be known non-zero — both were tested above
		if b, isB := x.Type().Underlying().(*types.Basic); isB && b.Kind() == types.Bool {
			return "boolean " + an.Stable(t.Of(x)) + " not known true on the path", false
		}
		if hasIsZero(x.Type()) {
			return "value " + an.Stable(t.Of(x)) + " not known non-zero on the path", false
		}
		return "value of " + an.Stable(t.Of(x)), true
	case *ssa.UnOp:
		if x.Op.String() == "*" {
			if ia, isIA := x.X.(*ssa.IndexAddr); isIA {
				why, ok := justified(t, ff, fn, ia.X, fs, at, depth+1)
				return "element of: " + why, ok
			}
			if fs.Has(an.NE(t.Of(x.X), "nil")) {
				return "loaded from a non-nil pointer", true
			}
			return "load of " + an.Stable(t.Of(x.X)) + " not known non-nil", false
		}
	case *ssa.MakeSlice:
		return "freshly made slice", true
	case *ssa.Slice, *ssa.ChangeType, *ssa.Convert:
		return "derived slice/value", true
	case *ssa.Parameter:
		return "parameter", true
	case *ssa.Phi:
		for _, pe := range ff.PhiOperands(x) {
			if why, ok := justified(t, ff, fn, pe.Val, append(append(an.FactSet{}, fs...), pe.Facts...), at, depth+1); !ok {
				return "phi operand: " + why, false
			}
		}
		return "every phi operand justified", true
	case *ssa.Const:
		return "constant " + term + " with a nil error", false
	}
	return "value " + an.Stable(term), false
}
