package rules

import (
	"strings"

	"golang.org/x/tools/go/ssa"

	"hdrcheck/an"
)

// checkExistingTailMovedBySearchOnly (C16.c): "with header times spaced by at most the block time no header
// younger than the pruning window is deleted". The head-based estimate (head − trustingPeriod/blockTime) is a
// header COUNT taken under the assumption that blocks come exactly one block time apart; it is the answer
// for a store that has no tail yet. Once there is a tail, the new tail is what the window search finds by
// header TIMES — with the default parameters the pruning window is longer than the trusting period, so a
// tail that is due for pruning is always "expired", and a shortcut that re-estimates in that case replaces
// the search in steady state. So every successful return of tailHeight that is reached with a non-zero
// old tail and no configured height hands out the result of findTailHeight.
func checkExistingTailMovedBySearchOnly(c *an.Ctx, id string, tailHeight, find *ssa.Function) {
	t, ff := c.T(tailHeight), c.F(tailHeight)
	n := 0
	for _, r := range ff.Returns() {
		if t.ErrShape(errResult(r)) != "nil" {
			continue
		}
		fs := ff.AtRefined(r.Block())
		hasTail := false
		for _, f := range fs {
			if f.Op == "B" && !f.Pos && strings.HasPrefix(f.A, "IsZero(") && strings.Contains(f.A, "p2") {
				hasTail = true
			}
		}
		if !hasTail {
			continue
		}
		n++
		v := t.Deref(r.Results[0])
		fromSearch := false
		if ex, isEx := v.(*ssa.Extract); isEx && ex.Index == 0 {
			if call, isCall := ex.Tuple.(*ssa.Call); isCall && an.StaticCallee(&call.Call) != nil && originOf(an.StaticCallee(&call.Call)) == find {
				fromSearch = true
			}
		}
		if t.Of(r.Results[0]) == "p0.Params.SyncFromHeight" {
			fromSearch = true // a configured height overrides everything (checked by explicit-height>=1)
		}
		c.Check(fromSearch, id, "existing-tail-moved-by-search-only", "once the store has a tail, the new tail height is the result of the window search over header times (or the configured height), never the head-based header count used for an empty store", tailHeight, r, "returns "+an.Stable(t.Of(r.Results[0])), fs)
	}
	c.Min(id, "successful returns of tailHeight with an existing tail", n, 1)
}
