package an

import (
	"go/constant"
	"strings"

	"golang.org/x/tools/go/ssa"
)

// neverNil: the value is a freshly built error / pointer that cannot be nil.
func neverNil(v ssa.Value) bool {
	v = Unwrap(v)
	switch x := v.(type) {
	case *ssa.Alloc:
		return true
	case *ssa.Call:
		switch StaticFullName(&x.Call) {
		case "fmt.Errorf", "errors.New":
			return true
		}
	case *ssa.MakeClosure, *ssa.Function:
		return true
	}
	return false
}

// AtRefined returns At(b) strengthened through merge phis that are known to be
// nil (resp. non-nil) at b: the Go idiom
//
//	x, err := f(); if err == nil && cond(x) { err = errors.New(…) }; if err != nil { return }
//
// makes `err` a phi; on the continuation EQ(phi,nil) holds, which rules out
// every incoming edge whose value cannot be nil; the facts common to the
// remaining edges (and value==nil for each) hold as well.
func (ff *FuncFacts) AtRefined(b *ssa.BasicBlock) FactSet {
	base := ff.At(b)
	out := append(FactSet{}, base...)
	seen := map[Fact]bool{}
	for _, f := range out {
		seen[f] = true
	}
	for round := 0; round < 3; round++ {
		added := false
		for _, f := range append(FactSet{}, out...) {
			// boolean phi of a short-circuit expression used as a value
			// (switch { case a && b: … }): B(phi) rules out the edges that carry
			// the constant false (¬B(phi): the constant true).
			if f.Op == "B" {
				ph := ff.phiByTerm(f.A)
				if ph == nil || !ff.Dominates(ph.Block(), b) {
					continue
				}
				var common FactSet
				first := true
				for i, e := range ph.Edges {
					pred := ph.Block().Preds[i]
					if !ff.Reachable(pred) {
						continue
					}
					if c, ok := e.(*ssa.Const); ok && c.Value != nil {
						isTrue := c.Value.ExactString() == "true"
						if isTrue != f.Pos {
							continue // this edge yields the opposite truth value
						}
					}
					ef := ff.edgeFactsIntoMerge(pred, ph.Block())
					if _, isConst := e.(*ssa.Const); !isConst {
						cf := ff.T.Cond(e)
						if !f.Pos {
							cf = cf.Neg()
						}
						ef = append(ef, cf)
					}
					if first {
						common, first = ef, false
					} else {
						var inter FactSet
						for _, g := range common {
							if ef.Has(g) {
								inter = append(inter, g)
							}
						}
						common = inter
					}
				}
				for _, g := range common {
					if !seen[g] {
						seen[g] = true
						out = append(out, g)
						added = true
					}
				}
				continue
			}
			if f.Op != "EQ" || (f.A != "nil" && f.B != "nil") {
				continue
			}
			term := f.A
			if term == "nil" {
				term = f.B
			}
			ph := ff.phiByTerm(term)
			if ph == nil || !ff.Dominates(ph.Block(), b) {
				continue
			}
			var common FactSet
			first := true
			feasible := 0
			for i, e := range ph.Edges {
				pred := ph.Block().Preds[i]
				if !ff.Reachable(pred) {
					continue
				}
				ef := ff.edgeFactsIntoMerge(pred, ph.Block())
				vt := ff.T.Of(e)
				if f.Pos { // phi == nil: drop edges whose value is certainly non-nil
					if neverNil(e) || ef.Has(NE(vt, "nil")) || ff.derefdBefore(e, pred) {
						continue
					}
					ef = append(ef, EQ(vt, "nil"))
				} else { // phi != nil: drop edges whose value is certainly nil
					if c, ok := e.(*ssa.Const); ok && c.Value == nil {
						continue
					}
					if ef.Has(EQ(vt, "nil")) {
						continue
					}
				}
				feasible++
				if first {
					common = ef
					first = false
				} else {
					var inter FactSet
					for _, g := range common {
						if ef.Has(g) {
							inter = append(inter, g)
						}
					}
					common = inter
				}
			}
			if feasible == 0 {
				continue
			}
			for _, g := range common {
				if !seen[g] {
					seen[g] = true
					out = append(out, g)
					added = true
				}
			}
		}
		if !added {
			break
		}
	}
	return out
}

// Unphi looks through a phi whose feasible incoming edges (reachable, not pruned, facts not
// contradictory) all carry the same value: the merge of one live definition with dead ones, as
// left behind when a helper's success return is spliced into its caller.
func (ff *FuncFacts) Unphi(v ssa.Value) ssa.Value {
	for depth := 0; depth < 4; depth++ {
		ph, ok := v.(*ssa.Phi)
		if !ok {
			return v
		}
		var only ssa.Value
		n := 0
		for _, pe := range ff.PhiOperands(ph) {
			if !ff.Reachable(pe.Pred) || ff.Removed(pe.Pred, ph.Block()) || contradictoryFacts(pe.Facts) {
				continue
			}
			if n == 0 || pe.Val != only {
				if n > 0 && pe.Val != only {
					return v
				}
				only = pe.Val
			}
			n++
		}
		if n == 0 || only == nil {
			return v
		}
		v = only
	}
	return v
}

// UnphiAt is Unphi with what is known at instruction `at` about the sibling merges of the same block
// taken into account: `x, err := r0, r1` after a spliced helper merges value and error in one block,
// and on the path where the error merge is known to be nil (non-nil) only the edges whose error
// operand can be nil (non-nil) are live — the value merge is read along the same edges.
func (ff *FuncFacts) UnphiAt(v ssa.Value, at ssa.Instruction) ssa.Value {
	fs := ff.AtInstr(at)
	for depth := 0; depth < 4; depth++ {
		ph, ok := v.(*ssa.Phi)
		if !ok {
			return v
		}
		dead := map[int]bool{}
		for _, in := range ph.Block().Instrs {
			q, isPhi := in.(*ssa.Phi)
			if !isPhi {
				break
			}
			if q == ph {
				continue
			}
			qt := ff.T.Of(q)
			// a flag merged in the same block (`done := false; for !done {…}`): where the flag is known
			// true (false) the edges that bring the constant false (true) are not the ones taken
			if isT, isF := fs.Has(B(qt)), fs.Has(NotB(qt)); isT != isF {
				for i, e := range q.Edges {
					if k, isConst := e.(*ssa.Const); isConst && k.Value != nil && k.Value.Kind() == constant.Bool && constant.BoolVal(k.Value) != isT {
						dead[i] = true
					}
				}
			}
			isNil := fs.Has(EQ(qt, "nil")) || fs.Has(EQ("nil", qt))
			notNil := fs.Has(NE(qt, "nil")) || fs.Has(NE("nil", qt))
			if !isNil && !notNil {
				continue
			}
			for i, e := range q.Edges {
				k, isConst := e.(*ssa.Const)
				opNil := isConst && k.IsNil()
				et := ff.T.Of(e)
				ef := ff.EdgeFacts(ph.Block().Preds[i], ph.Block())
				opNotNil := !opNil && (ef.Has(NE(et, "nil")) || ef.Has(NE("nil", et)))
				if (isNil && opNotNil) || (notNil && opNil) {
					dead[i] = true
				}
			}
		}
		var only ssa.Value
		n := 0
		for i, e := range ph.Edges {
			pred := ph.Block().Preds[i]
			if dead[i] || !ff.Reachable(pred) || ff.Removed(pred, ph.Block()) || contradictoryFacts(ff.EdgeFacts(pred, ph.Block())) {
				continue
			}
			if n > 0 && e != only {
				return v
			}
			only = e
			n++
		}
		if n == 0 || only == nil {
			return v
		}
		v = only
	}
	return v
}

// edgeFactsIntoMerge is EdgeFacts for reading a merge of block m along the edge pred→m. On a back edge
// the merges of m change their value: what was known about them at pred is about the previous trip
// round the loop and is dropped.
func (ff *FuncFacts) edgeFactsIntoMerge(pred, m *ssa.BasicBlock) FactSet {
	ef := ff.EdgeFacts(pred, m)
	if !ff.Dominates(m, pred) {
		return ef
	}
	var phis []string
	for _, in := range m.Instrs {
		q, isPhi := in.(*ssa.Phi)
		if !isPhi {
			break
		}
		phis = append(phis, ff.T.Of(q))
	}
	var out FactSet
	for _, f := range ef {
		stale := false
		for _, pt := range phis {
			if pt != "" && (strings.Contains(f.A, pt) || strings.Contains(f.B, pt)) {
				stale = true
			}
		}
		if !stale {
			out = append(out, f)
		}
	}
	return out
}

func contradictoryFacts(fs FactSet) bool {
	for _, f := range fs {
		if fs.Has(f.Neg()) {
			return true
		}
	}
	return false
}

// PhiOperandsUnder lists, for a phi known non-nil/nil at a point, the feasible
// incoming values with their edge facts (used by rules that must inspect every
// possible origin of an error value).
func (ff *FuncFacts) PhiOperands(ph *ssa.Phi) []PhiEdge {
	var out []PhiEdge
	for i, e := range ph.Edges {
		pred := ph.Block().Preds[i]
		if !ff.Reachable(pred) {
			continue
		}
		out = append(out, PhiEdge{Val: e, Pred: pred, Facts: ff.EdgeFacts(pred, ph.Block())})
	}
	return out
}

// LockHeld reports whether, on every path from the entry of fn to target, the
// lock selected by isLock/isUnlock is held at target (intraprocedural must
// analysis; a deferred unlock keeps the lock held until the function returns).
func LockHeld(fn *ssa.Function, isLock, isUnlock InstrPred, target ssa.Instruction, skip func(from, to *ssa.BasicBlock) bool) bool {
	n := len(fn.Blocks)
	out := make([]bool, n)
	vis := make([]bool, n)
	step := func(b *ssa.BasicBlock, in bool, stop ssa.Instruction) (bool, bool) {
		cur := in
		for _, ins := range b.Instrs {
			if stop != nil && ins == stop {
				return cur, true
			}
			if _, isDefer := ins.(*ssa.Defer); isDefer {
				continue
			}
			if _, isGo := ins.(*ssa.Go); isGo {
				continue
			}
			if isLock(ins) {
				cur = true
			} else if isUnlock(ins) {
				cur = false
			}
		}
		return cur, false
	}
	meet := func(b *ssa.BasicBlock) bool {
		res, any := true, false
		for _, p := range b.Preds {
			if !vis[p.Index] || (skip != nil && skip(p, b)) {
				continue
			}
			any = true
			res = res && out[p.Index]
		}
		return any && res
	}
	for iter := 0; iter < 2*n+2; iter++ {
		changed := false
		for _, b := range fn.Blocks {
			in := false
			if b.Index != 0 {
				reach := false
				for _, p := range b.Preds {
					if vis[p.Index] && !(skip != nil && skip(p, b)) {
						reach = true
					}
				}
				if !reach {
					continue
				}
				in = meet(b)
			}
			o, _ := step(b, in, nil)
			if !vis[b.Index] || o != out[b.Index] {
				vis[b.Index], out[b.Index] = true, o
				changed = true
			}
		}
		if !changed {
			break
		}
	}
	tb := target.Block()
	in := false
	if tb.Index != 0 {
		in = meet(tb)
	}
	cur, _ := step(tb, in, target)
	return cur
}

// hasLoop: the (unpruned) CFG has a back edge.
func (ff *FuncFacts) hasLoop() bool {
	if ff.loopKnown {
		return ff.loop
	}
	state := map[*ssa.BasicBlock]int{}
	var dfs func(b *ssa.BasicBlock) bool
	dfs = func(b *ssa.BasicBlock) bool {
		state[b] = 1
		for _, s := range b.Succs {
			if state[s] == 1 {
				return true
			}
			if state[s] == 0 && dfs(s) {
				return true
			}
		}
		state[b] = 2
		return false
	}
	ff.loopKnown = true
	if len(ff.Fn.Blocks) > 0 {
		ff.loop = dfs(ff.Fn.Blocks[0])
	}
	return ff.loop
}

// Removed reports whether the CFG edge was pruned by an assumption (for use as Flow.Skip).
func (ff *FuncFacts) Removed(from, to *ssa.BasicBlock) bool {
	return ff.removed[[2]int{from.Index, to.Index}] || !ff.reach[from]
}

// PhiEdge is one incoming edge of a phi.
type PhiEdge struct {
	Val   ssa.Value
	Pred  *ssa.BasicBlock
	Facts FactSet
}
