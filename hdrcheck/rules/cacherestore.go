package rules

import (
	"strings"

	"golang.org/x/tools/go/ssa"

	"hdrcheck/an"
)

// checkHeadCacheRestoredOnFailedAppend (C03.c, finding F30): "the Store stays one gap-free run". syncStore moves
// its cached head over a batch BEFORE it hands the batch to the Store (cache-move-then-append keeps that
// order: the Syncer reads the cache, never the Store, for what it has). The Store may refuse the batch —
// its write queue is full and the caller's context is done, or it was stopped. setLocalHead only logs that
// and then reads the cache: were the cache left on the refused header, the header would count as synced,
// would go neither to the Store nor to the pending ranges, and the next adjacent head would be written on
// top of the hole. So on every way out of Append on which the Store's Append, called after a move of the
// cache, has failed, the cache is written again after that call (swapped back).
func checkHeadCacheRestoredOnFailedAppend(c *an.Ctx, id string) {
	app := c.P.Method("sync", "syncStore", "Append")
	if app == nil {
		return
	}
	t, ff := c.T(app), c.F(app)
	isHeadWrite := func(in ssa.Instruction) bool {
		call, ok := in.(*ssa.Call)
		if !ok || len(call.Call.Args) == 0 {
			return false
		}
		full := an.StaticFullName(&call.Call)
		if !(strings.HasSuffix(full, "atomic.Pointer[T]).Store") || strings.HasSuffix(full, "atomic.Pointer[T]).CompareAndSwap") || strings.HasSuffix(full, "atomic.Pointer[T]).Swap")) {
			return false
		}
		return strings.HasSuffix(an.Stable(t.Of(call.Call.Args[0])), "p0.head")
	}
	var moves []ssa.Instruction
	an.Instrs(app, func(in ssa.Instruction) {
		if isHeadWrite(in) {
			moves = append(moves, in)
		}
	})
	n := 0
	an.Instrs(app, func(in ssa.Instruction) {
		ac, ok := in.(*ssa.Call)
		if !ok || !ac.Call.IsInvoke() || ac.Call.Method.Name() != "Append" {
			return
		}
		movedBefore := false
		for _, m := range moves {
			if (an.Flow{Fn: app}).CanReach(m, ac) {
				movedBefore = true
			}
		}
		if !movedBefore {
			return // the initialisation of an empty store appends first and sets the cache afterwards
		}
		n++
		pr := ff.Prune(an.NE(t.Of(ac), "nil"))
		isRestore := func(in2 ssa.Instruction) bool {
			if !isHeadWrite(in2) {
				return false
			}
			// a swap back compares with the pointer the move stored: it has to be that very pointer (a helper
			// that stores the address of its own copy of the header leaves the swap without effect)
			if rc := in2.(*ssa.Call); strings.HasSuffix(an.StaticFullName(&rc.Call), "CompareAndSwap") && len(rc.Call.Args) >= 2 {
				same := false
				for _, m := range moves {
					mc := m.(*ssa.Call)
					if strings.HasSuffix(an.StaticFullName(&mc.Call), ").Store") && len(mc.Call.Args) >= 2 && mc.Call.Args[1] == rc.Call.Args[1] {
						same = true
					}
				}
				if !same {
					return false
				}
			}
			// after the call
			if in2.Block() == ac.Block() {
				after := false
				for _, x := range ac.Block().Instrs {
					if x == ssa.Instruction(ac) {
						after = true
					} else if x == in2 {
						return after
					}
				}
			}
			return ac.Block().Dominates(in2.Block())
		}
		okAll := true
		m := 0
		for _, r := range pr.Returns() {
			if !(an.Flow{Fn: app, Skip: pr.Removed}).CanReach(ac, r) {
				continue
			}
			m++
			okAll = okAll && (an.Flow{Fn: app, Skip: pr.Removed}).MustPrecede(isRestore, r)
		}
		c.Check(okAll && m > 0, id, "head-cache-restored-on-failed-append", "when the Store refuses a batch over which the cached head has already moved, the cache is written back before Append returns (a cache left on headers that were never stored makes the Syncer skip them and write the next head on top of the hole)", app, ac, "", nil)
	})
	c.Min(id, "Store appends behind a move of the cached head", n, 1)
}
