package rules

import (
	"go/constant"
	"os"
	"strings"

	"golang.org/x/tools/go/ssa"

	"hdrcheck/an"
)

func init() {
	register(&Rule{
		ID: "C07",
		Explanation: "Liveness cannot be decided statically; the necessary structural conditions are decided: (a) no lost wake-up: every addition to the pending ranges is followed by the non-blocking trigger send on a channel created with capacity ≥ 1, and the sync loop leaves only through its context; " +
			"(b) progress of the range-request loop: its condition is from.Height() < to, the request is for min(to−from.Height(), MaxRangeRequestSize) headers up to from.Height()+size+1, and on every way back the loop-carried `from` becomes the last element of a result that was checked non-empty and first-adjacent; " +
			"(c) nothing partial is lost: pending headers are removed only after their Append succeeded and the loop continues from their last element; the remaining gap is always requested; (d) doSync records the error of a failed attempt and clears it on success, under stateLk; " +
			"(e) the pending-range arithmetic cannot wrap and ranges are never adjacent (which bounds the slice taken from a range).",
		NotDecided: []string{
			"that the store head actually reaches the target, that SyncWait returns, burst arrival patterns and virtual time: behaviour over schedules and getter answers",
		},
		Technique: "must-follow pairing (add → trigger), loop-carried value structure of the request loop, dominance facts, arithmetic obligations with a named structural invariant for range slicing",
		Trusted:   "go/types+go/ssa; C03 for what the checked getter contract gives",
		Run:       runC07,
	})
}

func runC07(c *an.Ctx) {
	p := c.P
	setLocal := p.Method("sync", "Syncer", "setLocalHead")
	wantSync := p.Method("sync", "Syncer", "wantSync")
	syncLoop := p.Method("sync", "Syncer", "syncLoop")
	newSyncer := p.Func("sync", "NewSyncer")
	reqHeaders := p.Method("sync", "Syncer", "requestHeaders")
	procHeaders := p.Method("sync", "Syncer", "processHeaders")
	doSync := p.Method("sync", "Syncer", "doSync")
	syncFn := p.Method("sync", "Syncer", "sync")
	rangesAdd := p.Method("sync", "ranges", "Add")
	rangeAmount := p.Method("sync", "headerRange", "rangeAmount")
	ssAppend := p.Method("sync", "syncStore", "Append")
	ok := true
	for name, f := range map[string]*ssa.Function{"sync.(*Syncer).setLocalHead": setLocal, "sync.(*Syncer).wantSync": wantSync, "sync.(*Syncer).syncLoop": syncLoop,
		"sync.NewSyncer": newSyncer, "sync.(*Syncer).requestHeaders": reqHeaders, "sync.(*Syncer).processHeaders": procHeaders, "sync.(*Syncer).doSync": doSync,
		"sync.(*Syncer).sync": syncFn, "sync.(*ranges).Add": rangesAdd, "sync.(*headerRange).rangeAmount": rangeAmount, "sync.(*syncStore).Append": ssAppend} {
		ok = c.Need(f, "C07.a", name) && ok
	}
	if !ok {
		return
	}

	// --- C07.a no lost wake-up
	{
		for _, ac := range callsTo(setLocal, rangesAdd) {
			okF, bad := (an.Flow{Fn: setLocal}).MustFollow(ac, an.IsCallTo(wantSync), nil)
			c.Check(okF, "C07.a", "add-then-trigger", "every new sync target added to the pending ranges is followed by a sync trigger", setLocal, ac, strOf(bad), nil)
		}
		c.Min("C07.a", "pending additions in the setter", len(callsTo(setLocal, rangesAdd)), 1)
		// a head above the store head always becomes a sync target: the only way past
		// the pending addition is "the store already has it"
		{
			st, sf := c.T(setLocal), c.F(setLocal)
			var hc *ssa.Call
			an.Instrs(setLocal, func(in ssa.Instruction) {
				if call, isCall := in.(*ssa.Call); isCall {
					if cal := an.StaticCallee(&call.Call); cal != nil && an.FuncName(cal) == "sync.(*syncStore).Head" {
						hc = call
					}
				}
			})
			// … and only such a head does: a header the store already has never enters the pending
			// ranges (it would never be cleaned out of them and would freeze the subjective head)
			for _, ac := range callsTo(setLocal, rangesAdd) {
				if hc == nil || !sf.Dominates(hc.Block(), ac.Block()) {
					c.Fail("C07.a", "target-only-above-store", "a header is added to the pending ranges only when the store head is unreadable or below it", setLocal, ac, "no read of the store head dominates the addition", nil)
					continue
				}
				sh, herr := "Height("+st.Of(hc)+"#0)", st.Of(hc)+"#1"
				pr := sf.Prune(an.EQ(herr, "nil"), an.GE(sh, "Height(p2)"))
				c.Check(!pr.Reachable(ac.Block()), "C07.a", "target-only-above-store", "a header is added to the pending ranges only when the store head is unreadable or below it", setLocal, ac,
					"with the store head read without error and not below the new head the addition is "+map[bool]string{true: "reachable", false: "unreachable"}[pr.Reachable(ac.Block())], nil)
			}
			if c.Check(hc != nil, "C07.a", "reads-store-head", "setLocalHead compares the new head with the store head", setLocal, nil, "", nil) {
				sh, herr := "Height("+st.Of(hc)+"#0)", st.Of(hc)+"#1"
				isAdd := an.IsCallTo(rangesAdd)
				for name, assume := range map[string][]an.Fact{
					"store-head-unreadable": {an.NE(herr, "nil")},
					"ahead-of-store":        {an.EQ(herr, "nil"), an.LT(sh, "Height(p2)")},
				} {
					pr := sf.Prune(assume...)
					okT := true
					var at ssa.Instruction
					for _, r := range pr.Returns() {
						if !(an.Flow{Fn: setLocal, Skip: pr.Removed}).MustPrecede(isAdd, r) {
							okT, at = false, r
						}
					}
					c.Check(okT && len(pr.Returns()) > 0, "C07.a", "target-added:"+name, "a new head that the store does not have yet ("+name+") is always added to the pending ranges (and then triggers a sync)", setLocal, at, "", nil)
				}
			}
		}
		wt := c.T(wantSync)
		okSel := false
		an.Instrs(wantSync, func(in ssa.Instruction) {
			if sel, isSel := in.(*ssa.Select); isSel && !sel.Blocking {
				for _, st := range sel.States {
					if st.Send != nil && isRecvField(wt, st.Chan, "triggerSync") {
						okSel = true
					}
				}
			}
		})
		c.Check(okSel, "C07.a", "non-blocking-trigger", "the trigger is a non-blocking send on the trigger channel (a pending trigger is enough)", wantSync, nil, "", nil)
		nt := c.T(newSyncer)
		okCap := false
		an.Instrs(newSyncer, func(in ssa.Instruction) {
			st, isSt := in.(*ssa.Store)
			if !isSt {
				return
			}
			if fa, isFA := st.Addr.(*ssa.FieldAddr); isFA && fieldName(fa) == "triggerSync" {
				if mc, isMC := st.Val.(*ssa.MakeChan); isMC {
					if k := nt.Of(mc.Size); k != "0" && isDigits(k) {
						okCap = true
					}
				}
			}
		})
		c.Check(okCap, "C07.a", "trigger-buffered", "the trigger channel is created with a constant capacity ≥ 1 (a trigger sent while a sync runs is not lost)", newSyncer, nil, "", nil)
		lt, lf := c.T(syncLoop), c.F(syncLoop)
		okLoop := false
		var sel *ssa.Select
		an.Instrs(syncLoop, func(in ssa.Instruction) {
			if s, isSel := in.(*ssa.Select); isSel {
				sel = s
			}
		})
		if sel != nil {
			trigIdx, ctxIdx := -1, -1
			for i, st := range sel.States {
				if st.Send == nil && isRecvField(lt, st.Chan, "triggerSync") {
					trigIdx = i
				}
				if call, isCall := st.Chan.(*ssa.Call); isCall && call.Call.IsInvoke() && call.Call.Method.Name() == "Done" {
					ctxIdx = i
				}
			}
			okLoop = trigIdx >= 0 && ctxIdx >= 0
			for _, r := range lf.Returns() {
				okLoop = okLoop && lf.AtInstr(r).Has(an.EQ(lt.Of(sel)+"#0", itoa(ctxIdx)))
			}
			// the trigger case calls sync
			okCall := false
			for _, sc := range callsTo(syncLoop, syncFn) {
				if lf.AtInstr(sc).Has(an.EQ(lt.Of(sel)+"#0", itoa(trigIdx))) {
					okCall = true
				}
			}
			okLoop = okLoop && okCall
		}
		c.Check(okLoop, "C07.a", "loop-serves-triggers", "the sync loop runs a sync for every trigger and exits only when its context is done", syncLoop, nil, "", nil)
	}
	// Start: a Syncer that reports a successful start has launched the sync loop and has opened the
	// gate (`started`) the gossip validator waits behind
	if start := p.Method("sync", "Syncer", "Start"); c.Need(start, "C07.a", "sync.(*Syncer).Start") {
		st, sf := c.T(start), c.F(start)
		fl := an.Flow{Fn: start}
		isLoopGo := func(in ssa.Instruction) bool {
			g, ok := in.(*ssa.Go)
			return ok && an.StaticCallee(&g.Call) == syncLoop
		}
		opensGate := false
		an.Instrs(start, func(in ssa.Instruction) {
			if call, ok := in.(*ssa.Call); ok {
				if b, isB := call.Call.Value.(*ssa.Builtin); isB && b.Name() == "close" && isRecvField(st, call.Call.Args[0], "started") {
					opensGate = true
				}
			}
		})
		isGateSelect := func(in ssa.Instruction) bool {
			sel, ok := in.(*ssa.Select)
			if !ok {
				return false
			}
			for _, s := range sel.States {
				if s.Send == nil && isRecvField(st, s.Chan, "started") {
					return true
				}
			}
			return false
		}
		isGate := func(in ssa.Instruction) bool {
			if isGateSelect(in) {
				return true
			}
			call, ok := in.(*ssa.Call)
			if !ok {
				return false
			}
			b, isB := call.Call.Value.(*ssa.Builtin)
			return isB && b.Name() == "close" && isRecvField(st, call.Call.Args[0], "started")
		}
		n := 0
		for _, r := range sf.Returns() {
			if st.ErrShape(errResult(r)) != "nil" {
				continue
			}
			n++
			c.Check(fl.MustPrecedeAny(isLoopGo, r) && opensGate && fl.MustPrecede(isGate, r), "C07.a", "start-launches-loop", "Start returns nil only after it launched the sync loop and opened the `started` gate of the gossip validator", start, r, "", nil)
		}
		c.Min("C07.a", "successful returns of Start", n, 1)
	}

	// --- C07.b progress of the request loop
	{
		t, ff := c.T(reqHeaders), c.F(reqHeaders)
		var gc *ssa.Call
		an.Instrs(reqHeaders, func(in ssa.Instruction) {
			if call, isCall := in.(*ssa.Call); isCall && call.Call.IsInvoke() && call.Call.Method.Name() == "GetRangeByHeight" {
				gc = call
			}
		})
		if gc == nil {
			c.Undecided("C07.b", "range-request", "requestHeaders asks the getter for ranges", reqHeaders, nil, "no GetRangeByHeight call")
		} else {
			fromPhi, isPhi := gc.Call.Args[1].(*ssa.Phi)
			if c.Check(isPhi, "C07.b", "loop-carried-from", "the range request starts from the loop-carried header", reqHeaders, gc, "", nil) {
				fH := "Height(" + t.Of(fromPhi) + ")"
				res := t.Of(gc) + "#0"
				fs := ff.AtInstr(gc)
				c.Check(fs.Has(an.LT(fH, "p3")), "C07.b", "loop-condition", "a range is requested only while from.Height() < to", reqHeaders, gc, "", fs)
				// reqTo = from.Height() + size + 1 with size = min(to - from.Height(), Max)
				reqTo := gc.Call.Args[2]
				size := t.Affine(reqTo).Sub(t.Affine(fromPhiHeight(t, reqHeaders, fromPhi))).Sub(an.Const(1))
				okSize := false
				sz := size.String()
				if ph := phiNamed(reqHeaders, t, sz); ph != nil {
					okSize = true
					for _, pe := range ff.PhiOperands(ph) {
						v := t.Of(pe.Val)
						switch v {
						case "64":
							okSize = okSize && pe.Facts.Has(an.GE("(-"+fH+"+p3)", "64"))
						case "(-" + fH + "+p3)":
							okSize = okSize && pe.Facts.Has(an.LT("(-"+fH+"+p3)", "64"))
						default:
							okSize = false
						}
					}
				} else if strings.HasPrefix(sz, "min(") {
					okSize = strings.Contains(sz, "(-"+fH+"+p3)") && strings.Contains(sz, "64")
				}
				c.Check(okSize, "C07.b", "request-size", "each request asks for min(to − from.Height(), MaxRangeRequestSize) headers, i.e. up to from.Height()+size+1", reqHeaders, gc, "size = "+sz, nil)
				// back edge: from := headers[len-1] of the checked result
				okBack := true
				nBack := 0
				for _, pe := range ff.PhiOperands(fromPhi) {
					if !ff.Dominates(fromPhi.Block(), pe.Pred) {
						okBack = okBack && t.Of(pe.Val) == "p2"
						continue
					}
					nBack++
					okBack = okBack && t.Of(pe.Val) == res+"[(len("+res+")-1)]" &&
						pe.Facts.Has(an.EQ(t.Of(gc)+"#1", "nil")) && pe.Facts.Has(an.NE("len("+res+")", "0")) && pe.Facts.Has(an.EQ("Height("+res+"[0])", "("+fH+"+1)"))
					// and the result was stored
					stored := false
					for _, ac := range callsTo(reqHeaders, ssAppend) {
						if pe.Facts.Has(an.EQ(t.Of(ac), "nil")) {
							stored = true
						}
					}
					okBack = okBack && stored
				}
				c.Check(okBack && nBack >= 1, "C07.b", "advance-to-last-received", "on every way back the loop continues from the last header of a stored, non-empty, first-adjacent result (so each round advances at least one height)", reqHeaders, fromPhi, "", nil)
				// every failure leaves with an error, success only at loop exit
				for _, r := range ff.Returns() {
					if t.ErrShape(errResult(r)) == "nil" {
						c.Check(ff.AtInstr(r).Has(an.GE(fH, "p3")), "C07.b", "done-only-at-target", "requestHeaders returns nil only when the loop-carried header has reached the target height", reqHeaders, r, "", ff.AtInstr(r))
					}
				}
			}
		}
		n := checkArith(c, "C07.b", []*ssa.Function{reqHeaders}, map[string]bool{"usub": true, "index": true, "slice": true}, nil, nil)
		c.Min("C07.b", "arithmetic/index sites in requestHeaders", n, 3)
	}

	// --- C07.c nothing partial is lost
	{
		t, ff := c.T(procHeaders), c.F(procHeaders)
		var rm *ssa.Call
		an.Instrs(procHeaders, func(in ssa.Instruction) {
			if call, isCall := in.(*ssa.Call); isCall {
				if cal := an.StaticCallee(&call.Call); cal != nil && an.FuncName(cal) == "sync.(*headerRange).Remove" {
					rm = call
				}
			}
		})
		acs := callsTo(procHeaders, ssAppend)
		if c.Check(rm != nil && len(acs) == 1, "C07.c", "append-and-remove", "processHeaders appends cached headers and removes them from the pending range", procHeaders, nil, "", nil) {
			fs := ff.AtInstr(rm)
			c.Check(fs.Has(an.EQ(t.Of(acs[0]), "nil")) && t.Of(rm.Call.Args[1]) == "p3", "C07.c", "remove-after-append", "cached headers are dropped from the pending range only after they were stored successfully", procHeaders, rm, "", fs)
		}
		// the final request always covers the rest, from the loop-carried header
		rcs := callsTo(procHeaders, reqHeaders)
		c.Min("C07.c", "range requests in processHeaders", len(rcs), 2)
		okTail := false
		for _, r := range ff.Returns() {
			if t.ErrShape(errResult(r)) == "nil" {
				c.Fail("C07.c", "rest-requested", "processHeaders never reports success without having requested the rest up to the target", procHeaders, r, "plain nil return", ff.AtInstr(r))
			}
			if ex := t.Deref(errResult(r)); ex != nil {
				if call, isCall := ex.(*ssa.Call); isCall && an.StaticCallee(&call.Call) == reqHeaders && t.Of(call.Call.Args[3]) == "p3" {
					if _, isPhi := call.Call.Args[2].(*ssa.Phi); isPhi {
						okTail = true
					}
				}
			}
		}
		c.Check(okTail, "C07.c", "rest-requested", "after the cached ranges are applied the rest up to the target is always requested, from the last applied header", procHeaders, nil, "", nil)
		// gap in front of a cached range is requested before it is applied
		if len(acs) == 1 {
			gapOK := false
			for _, rc := range rcs {
				if (an.Flow{Fn: procHeaders}).CanReach(rc, acs[0]) && strings.Contains(t.Of(rc.Call.Args[3]), "[0])-1") {
					fsr := ff.AtInstr(rc)
					for _, f := range fsr {
						if f.Op == "EQ" && !f.Pos && strings.Contains(f.A+f.B, "[0])") && strings.Contains(f.A+f.B, "+1)") {
							gapOK = true
						}
					}
				}
			}
			c.Check(gapOK, "C07.c", "gap-filled-first", "when the cached range is not adjacent to the last applied header the gap up to its first header is requested first", procHeaders, nil, "", nil)
			// a failed request aborts the attempt with its error: nothing is applied or reported done afterwards
			for _, rc := range rcs {
				pr := ff.Prune(an.NE(t.Of(rc), "nil"))
				okAbort := !pr.Reachable(acs[0].Block()) || !(an.Flow{Fn: procHeaders, Skip: pr.Removed}).CanReach(rc, acs[0])
				for _, r := range pr.Returns() {
					if (an.Flow{Fn: procHeaders, Skip: pr.Removed}).CanReach(rc, r) || r.Block() == rc.Block() {
						okAbort = okAbort && t.ErrShape(errResult(r)) != "nil" && !pr.AtRefined(r.Block()).Has(an.EQ(t.Of(errResult(r)), "nil"))
					}
				}
				c.Check(okAbort, "C07.c", "failed-request-aborts", "when a range request fails processHeaders returns that error and applies nothing further", procHeaders, rc, "", nil)
			}
		}
		n := checkArith(c, "C07.c", []*ssa.Function{procHeaders}, map[string]bool{"index": true, "slice": true}, nil, nil)
		c.Min("C07.c", "index sites in processHeaders", n, 2)
	}

	// --- C07.d state error recorded and cleared
	{
		t, ff := c.T(doSync), c.F(doSync)
		lk, ul := mutexOp(t, "stateLk", "Lock"), mutexOp(t, "stateLk", "Unlock")
		pcs := callsTo(doSync, procHeaders)
		if c.Check(len(pcs) == 1, "C07.d", "runs-process", "doSync runs processHeaders once", doSync, nil, "", nil) {
			pErr := t.Of(pcs[0])
			nSet, nClr := 0, 0
			an.Instrs(doSync, func(in ssa.Instruction) {
				st, isSt := in.(*ssa.Store)
				if !isSt {
					return
				}
				fa, isFA := st.Addr.(*ssa.FieldAddr)
				if !isFA || fieldName(fa) != "Error" {
					return
				}
				fs := ff.AtInstr(st)
				held := an.LockHeld(doSync, lk, ul, st, nil)
				v := t.Of(st.Val)
				switch {
				case v == `const("")`:
					nClr++
					c.Check(held && fs.Has(an.EQ(pErr, "nil")), "C07.d", "error-cleared", "a successful sync clears the recorded error, under stateLk", doSync, st, "", fs)
				default:
					nSet++
					c.Check(held && fs.Has(an.NE(pErr, "nil")) && strings.HasPrefix(v, "invoke:Error@"), "C07.d", "error-recorded", "a failed sync records its error text, under stateLk", doSync, st, "", fs)
				}
			})
			c.Check(nSet >= 1 && nClr >= 1, "C07.d", "both-outcomes", "doSync writes State.Error on both outcomes", doSync, nil, "", nil)
			for _, r := range ff.Returns() {
				c.Check(t.ErrShape(errResult(r)) == "prop("+pErr+")", "C07.d", "returns-process-error", "doSync returns the outcome of processHeaders", doSync, r, t.ErrShape(errResult(r)), nil)
			}
		}
	}

	// --- C07.e pending-range arithmetic
	{
		t := c.T(rangesAdd)
		ff := c.F(rangesAdd)
		// ranges are never adjacent: a new range is started only when h.Height() != head.Height()+1
		okNA := false
		an.Instrs(rangesAdd, func(in ssa.Instruction) {
			call, isCall := in.(*ssa.Call)
			if !isCall {
				return
			}
			if cal := an.StaticCallee(&call.Call); cal != nil && an.FuncName(cal) == "sync.newRange" {
				pr := ff.Prune(an.NotB("IsZero("+headTermOf(t, rangesAdd)+")"), an.EQ("Height(p1)", "(Height("+headTermOf(t, rangesAdd)+")+1)"))
				okNA = !pr.Reachable(call.Block())
			}
		})
		c.Check(okNA, "C07.e", "ranges-non-adjacent", "a header adjacent to the last pending range extends it; a new range is started only across a gap (ranges are never adjacent)", rangesAdd, nil, "", nil)
		checkAppendRestartsEmptiedRange(c, "C07.e")
		checkCacheMoveThenAppend(c, "C07.b")
		checkHeadCacheRestoredOnFailedAppend(c, "C07.b")
		// ranges stay strictly increasing: a header at or below the pending head is neither appended nor starts a range
		// (a duplicate range [..K],[K] can never be stored and blocks the pending queue for good)
		{
			hd := headTermOf(t, rangesAdd)
			pr := ff.Prune(an.NotB("IsZero("+hd+")"), an.GE("Height("+hd+")", "Height(p1)"))
			nMut := 0
			an.Instrs(rangesAdd, func(in ssa.Instruction) {
				call, isCall := in.(*ssa.Call)
				if !isCall {
					return
				}
				cal := an.StaticCallee(&call.Call)
				if cal == nil || (an.FuncName(cal) != "sync.newRange" && an.FuncName(cal) != "sync.(*headerRange).Append") {
					return
				}
				nMut++
				c.Check(!pr.Reachable(call.Block()), "C07.e", "ranges-strictly-increasing:"+an.FuncName(cal), "a header whose height is at or below the pending head is dropped: it neither extends the last range nor starts a new one", rangesAdd, call, "", ff.AtRefined(call.Block()))
			})
			c.Min("C07.e", "mutations of the pending ranges in Add", nMut, 2)
			// … and a header above the pending head (or the first one) is never dropped
			isMut := func(in ssa.Instruction) bool {
				call, isCall := in.(*ssa.Call)
				if !isCall {
					return false
				}
				cal := an.StaticCallee(&call.Call)
				return cal != nil && (an.FuncName(cal) == "sync.newRange" || an.FuncName(cal) == "sync.(*headerRange).Append")
			}
			for _, cs := range []struct {
				name   string
				assume []an.Fact
			}{
				{"first-header", []an.Fact{an.B("IsZero(" + hd + ")")}},
				{"above-pending-head", []an.Fact{an.NotB("IsZero(" + hd + ")"), an.LT("Height("+hd+")", "Height(p1)")}},
			} {
				pa := ff.Prune(cs.assume...)
				okAcc := len(pa.Returns()) > 0
				var at ssa.Instruction
				for _, r := range pa.Returns() {
					if !(an.Flow{Fn: rangesAdd, Skip: pa.Removed}).MustPrecede(isMut, r) {
						okAcc, at = false, r
					}
				}
				c.Check(okAcc, "C07.e", "ranges-add-accepts:"+cs.name, "a header above everything pending ("+cs.name+") is always recorded: it extends the last range or starts a new one", rangesAdd, at, "", nil)
			}
			// a header is appended to the last range only when it is adjacent to its head (ranges are contiguous)
			an.Instrs(rangesAdd, func(in ssa.Instruction) {
				call, isCall := in.(*ssa.Call)
				if !isCall {
					return
				}
				if cal := an.StaticCallee(&call.Call); cal != nil && an.FuncName(cal) == "sync.(*headerRange).Append" {
					fs := ff.AtRefined(call.Block())
					c.Check(fs.Has(an.NotB("IsZero("+hd+")")) && fs.Has(an.EQ("Height(p1)", "(Height("+hd+")+1)")), "C07.e", "range-extended-only-adjacent",
						"the last pending range is extended only by the header adjacent to its head (every range stays contiguous) and only when a range exists", rangesAdd, call, "", fs)
				}
			})
		}
		// rangeAmount(end) ≤ len(headers), given that no range ends exactly at end−1 (ranges-non-adjacent above;
		// start+len does not wrap: heights are far below 2^64)
		{
			rt, rf := c.T(rangeAmount), c.F(rangeAmount)
			nRet := 0
			for _, r := range rf.Returns() {
				nRet++
				ln := an.Var("len(p0.headers)", true)
				c.Check(rf.ProveGE(r.Block(), ln, rt.Affine(r.Results[0]), 0, an.NE("(len(p0.headers)+p0.start)", "p1")), "C07.e", "postcond:rangeAmount",
					"rangeAmount(end) never exceeds the number of headers in the range (for a range that does not end exactly at end−1)", rangeAmount, r, "returns "+an.Stable(rt.Of(r.Results[0])), rf.AtRefined(r.Block()))
			}
			c.Min("C07.e", "returns of rangeAmount", nRet, 2)
			// for a non-empty range that starts at or below `end`: at least one header, and none above `end`
			pr := rf.Prune(an.LE("p0.start", "p1"))
			nIn := 0
			for _, r := range pr.Returns() {
				nIn++
				ret := rt.Affine(r.Results[0])
				lo := pr.ProveGE(r.Block(), ret, an.Const(1), 0, an.LE("p0.start", "p1"), an.GE("len(p0.headers)", "1"))
				hi := pr.ProveGE(r.Block(), an.Var("p1", true).Sub(an.Var("p0.start", true)).Add(an.Const(1)), ret, 0, an.LE("p0.start", "p1"))
				c.Check(lo && hi, "C07.e", "postcond:rangeAmount-exact", "for start ≤ end and a non-empty range, 1 ≤ rangeAmount(end) ≤ end−start+1 (the header at `end` is included, none above it)", rangeAmount, r,
					"returns "+an.Stable(rt.Of(r.Results[0])), pr.AtRefined(r.Block()))
			}
			c.Min("C07.e", "returns of rangeAmount for start ≤ end", nIn, 1)
			// First(): hands out the first range only when it is non-empty, and drops a range from the queue only when it is empty
			if first := p.Method("sync", "ranges", "First"); c.Need(first, "C07.e", "sync.(*ranges).First") {
				ft, ffi := c.T(first), c.F(first)
				emptyFn := p.Method("sync", "headerRange", "Empty")
				nTrue, nDrop := 0, 0
				an.Instrs(first, func(in ssa.Instruction) {
					st, isSt := in.(*ssa.Store)
					if !isSt {
						return
					}
					if k, isK := st.Val.(*ssa.Const); isK && k.Value != nil && k.Value.Kind() == constant.Bool && constant.BoolVal(k.Value) {
						// the range stored as result in the same block
						var rng ssa.Value
						for _, o := range st.Block().Instrs {
							if os, isS := o.(*ssa.Store); isS && os != st {
								if _, isAl := os.Addr.(*ssa.Alloc); isAl {
									rng = os.Val
								}
							}
						}
						nTrue++
						okNE := false
						if rng != nil {
							for _, ec := range callsTo(first, emptyFn) {
								if ec.Call.Args[0] == rng && ffi.AtRefined(st.Block()).Has(an.NotB(ft.Of(ec))) {
									okNE = true
								}
							}
						}
						c.Check(okNE, "C07.e", "first-returns-non-empty", "First() reports a range only after it tested that very range to be non-empty", first, st, "", ffi.AtRefined(st.Block()))
					}
					if fa, isFA := st.Addr.(*ssa.FieldAddr); isFA && fieldName(fa) == "ranges" {
						nDrop++
						sl, isSl := st.Val.(*ssa.Slice)
						okDrop := isSl && sl.High == nil && ft.Of(sl.Low) == "1"
						if okDrop {
							okDrop = false
							for _, ec := range callsTo(first, emptyFn) {
								if an.Stable(ft.Of(ec.Call.Args[0])) == "p0.ranges[0]" && ffi.AtRefined(st.Block()).Has(an.B(ft.Of(ec))) {
									okDrop = true
								}
							}
						}
						c.Check(okDrop, "C07.e", "first-drops-only-empty", "First() removes exactly the first range from the queue and only after it tested it to be empty (no pending header is dropped)", first, st, "", ffi.AtRefined(st.Block()))
					}
				})
				c.Min("C07.e", "ranges handed out by First", nTrue, 1)
				c.Min("C07.e", "queue removals in First", nDrop, 1)
				if c.Need(emptyFn, "C07.e", "sync.(*headerRange).Empty") {
					et := c.T(emptyFn)
					for _, b := range emptyFn.Blocks {
						if r, isRet := b.Instrs[len(b.Instrs)-1].(*ssa.Return); isRet && b != emptyFn.Recover {
							v := an.Stable(et.Of(r.Results[0]))
							c.Check(v == "(len(p0.headers) == 0)" || v == "(0 == len(p0.headers))", "C07.e", "empty-is-len-zero", "headerRange.Empty() is len(headers) == 0", emptyFn, r, "returns "+v, nil)
						}
					}
				}
			}
			if os.Getenv("HDRCHECK_USESURVEY") != "" {
				checkResultUse(c, "C07.w", p.RepoFuncs()...)
			}
			if os.Getenv("HDRCHECK_PROVSURVEY") != "" {
				checkResultProvenance(c, "C07.x", p.RepoFuncs()...)
			}
			if os.Getenv("HDRCHECK_ERRSURVEY") != "" {
				checkErrorDiscipline(c, "C07.y", nil, p.RepoFuncs()...)
			}
			if os.Getenv("HDRCHECK_LOCKSURVEY") != "" {
				checkLockBalance(c, "C07.z", p.RepoFuncs()...)
			}
			// the pending ranges and the sync state are mutex-protected: an unbalanced
			// acquisition blocks the next sync attempt (or State()) for good
			// (lock balance of ranges.lk, headerRange.lk and stateLk: rules/locks.go lockTable)
		}
		n := checkArith(c, "C07.e", []*ssa.Function{rangeAmount, p.Method("sync", "headerRange", "Get"), p.Method("sync", "headerRange", "Remove")}, map[string]bool{"usub": true, "index": true, "slice": true}, nil, []arithException{
			{Func: "sync.(*headerRange).Get", Match: "[:", Reason: "rangeAmount(end) ≤ len(headers): it returns len, or end−start+1 when start+len ≥ end; start+len == end (which would give len+1) needs a range ending exactly at end−1 while `end` is the height of a header of a later pending range, impossible because ranges are never adjacent (checked: C07.e ranges-non-adjacent)"},
			{Func: "sync.(*headerRange).Remove", Match: ":]", Reason: "same bound as headerRange.Get (rangeAmount(end) ≤ len(headers) by the non-adjacency of pending ranges)"},
		})
		c.Min("C07.e", "arithmetic sites of the pending ranges", n, 2)
	}
}

func strOf(i ssa.Instruction) string {
	if i == nil {
		return ""
	}
	return i.String()
}

// fromPhiHeight returns the Height(φ) call value used in fn (any), for affine arithmetic.
func fromPhiHeight(t *an.Terms, fn *ssa.Function, ph *ssa.Phi) ssa.Value {
	var out ssa.Value
	an.Instrs(fn, func(in ssa.Instruction) {
		if call, ok := in.(*ssa.Call); ok && out == nil && call.Call.IsInvoke() && call.Call.Method.Name() == "Height" && call.Call.Value == ssa.Value(ph) {
			out = call
		}
	})
	if out == nil {
		return ph
	}
	return out
}

func phiNamed(fn *ssa.Function, t *an.Terms, term string) *ssa.Phi {
	var out *ssa.Phi
	an.Instrs(fn, func(in ssa.Instruction) {
		if ph, ok := in.(*ssa.Phi); ok && t.Of(ph) == term {
			out = ph
		}
	})
	return out
}

// headTermOf finds the term of the `rs.head()` result in ranges.Add.
func headTermOf(t *an.Terms, fn *ssa.Function) string {
	s := ""
	an.Instrs(fn, func(in ssa.Instruction) {
		if call, ok := in.(*ssa.Call); ok {
			if cal := an.StaticCallee(&call.Call); cal != nil && an.FuncName(cal) == "sync.(*ranges).head" {
				s = t.Of(call)
			}
		}
	})
	return s
}
