package rules

import (
	"go/token"
	"strings"

	"golang.org/x/tools/go/ssa"

	"hdrcheck/an"
)

// checkFarEstimateAboveOldTail (C16.c, finding F32): "no spacing of header times or heights (… halted chains …)
// makes this computation … wedge Head()/Start", "1 ≤ Tail". The head-based estimate of the window search,
// head.Height() − window/blockTime, is a header count; when blocks came slower than the block time it lies
// at or below the CURRENT tail, and both refinement walks start only above the old tail — such an estimate
// would be returned as it is, the pruning window would move the tail down, and the tail header would be
// requested from a network that has pruned it. So wherever that difference flows on into the search it
// stands under the fact that it is above the old tail's height.
func checkFarEstimateAboveOldTail(c *an.Ctx, id string, find *ssa.Function) {
	t, ff := c.T(find), c.F(find)
	n := 0
	an.Instrs(find, func(in ssa.Instruction) {
		ph, ok := in.(*ssa.Phi)
		if !ok {
			return
		}
		for _, pe := range ff.PhiOperands(ph) {
			sub, isSub := t.Deref(pe.Val).(*ssa.BinOp)
			if !isSub || sub.Op != token.SUB {
				continue
			}
			term := t.Of(pe.Val)
			if !strings.Contains(term, "Height(p3)") || !strings.Contains(term, "PruningWindow") {
				continue
			}
			n++
			ok := pe.Facts.Has(an.LT("Height(p2)", term))
			c.Check(ok, id, "far-estimate-above-old-tail", "the head-based estimate head − window/blockTime goes on into the window search only where it is above the current tail (a count taken on a slow or halted chain reaches below it: the tail never moves down)", find, sub, "estimate "+an.Stable(term), pe.Facts)
		}
	})
	c.Min(id, "head-based estimates of the window search", n, 1)
}
