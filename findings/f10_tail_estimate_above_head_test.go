package sync

// Demonstration for finding F10 (property C16).
// Copy into /repo/sync and run: go test ./sync -run 'TestF10' -count=1
//
// F10: in findTailHeight the "tails are close" branch estimates the new tail as
//      oldTail.Height() + tailTimeDiff/blockTime with no bound against the head.
//      When header times are spaced wider than the block time (a chain that
//      halted for a while: irregular block times are explicitly in scope of C16)
//      the estimate lies far above the head; the refinement loop is skipped and
//      renewTail asks the network for a height that does not exist, so every
//      Head()/Start fails with "fetching SyncFromHeight tail(...)" (wedged).
//      Noticed by a bug-seeding sub-agent reading the clean tree; confirmed here.

import (
	"context"
	"testing"
	"time"

	"github.com/ipfs/go-datastore"
	dssync "github.com/ipfs/go-datastore/sync"
	"github.com/stretchr/testify/require"

	"github.com/celestiaorg/go-header/headertest"
	"github.com/celestiaorg/go-header/store"
)

func TestF10_TailEstimateNeverAboveHead(t *testing.T) {
	const (
		blockTime = time.Nanosecond
		window    = 100 * time.Nanosecond
	)
	ctx, cancel := context.WithTimeout(context.Background(), 5*time.Second)
	t.Cleanup(cancel)

	// heights 1..11 spaced by the block time, then the chain halts for 1.5 windows and produces height 12
	t0 := time.Now().Add(-time.Minute).UTC()
	var chain []*headertest.DummyHeader
	prev := &headertest.DummyHeader{HeightI: 1, Timestamp: t0, Chainid: "test"}
	chain = append(chain, prev)
	for h := uint64(2); h <= 12; h++ {
		ts := prev.Time().Add(blockTime)
		if h == 12 {
			ts = t0.Add(150 * time.Nanosecond)
		}
		next := &headertest.DummyHeader{Chainid: "test", PreviousHash: prev.Hash(), HeightI: h, Timestamp: ts}
		chain = append(chain, next)
		prev = next
	}

	ds := dssync.MutexWrap(datastore.NewMapDatastore())
	localStore, err := store.NewStore[*headertest.DummyHeader](ds, store.WithWriteBatchSize(1))
	require.NoError(t, err)
	require.NoError(t, localStore.Start(ctx))
	t.Cleanup(func() { _ = localStore.Stop(context.Background()) })
	require.NoError(t, localStore.Append(ctx, chain...))
	require.NoError(t, localStore.Sync(ctx))

	syncer, err := NewSyncer[*headertest.DummyHeader](
		headertest.NewStore[*headertest.DummyHeader](t, headertest.NewTestSuite(t), 1),
		localStore,
		headertest.NewDummySubscriber(),
		WithBlockTime(blockTime),
		WithPruningWindow(window),
	)
	require.NoError(t, err)

	oldTail, head := chain[0], chain[len(chain)-1]
	got, err := syncer.findTailHeight(ctx, oldTail, head)
	require.NoError(t, err)
	require.LessOrEqual(t, got, head.Height(), "the tail estimate must stay within the chain (head is %d)", head.Height())
	require.GreaterOrEqual(t, got, uint64(1))
}
