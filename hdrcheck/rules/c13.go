package rules

import (
	"fmt"
	"go/token"
	"strings"

	"golang.org/x/tools/go/ssa"

	"hdrcheck/an"
)

func init() {
	register(&Rule{
		ID: "C13",
		Explanation: "Decides for Exchange.Get/GetByHeight and the functions they reach: (a) Get returns nil-error only under bytes.Equal(headers[0].Hash(), hash) and returns that very header; " +
			"(b) processResponses rejects an empty response and appends a header only after its status converted to nil, UnmarshalBinary and Validate of that same header returned nil, one append per response; " +
			"(c) request returns nil-error only after a loop over all decoded headers in which a validateChainID error returns; validateChainID returns nil only for an unset or case-insensitively equal chain id; " +
			"(d) performRequest returns (r.headers, nil) only under r.err==nil of the same received value, whose only producers send the pair returned by request; no trusted peers and all-failed both return a non-nil error; " +
			"(e) the headers[0] sites are discharged by the non-empty chain: Amount is the constant 1, the Amount==0 branch is the only empty nil-error result, every other nil-error result carries one header per response of a non-empty response list.",
		NotDecided: []string{
			"stream-level behaviour of libp2p and serde.Read on malformed frames (library code)",
			"hanging peers / timing (contexts are checked for presence only)",
		},
		Technique: "dominance facts on nil-error returns, all-elements loop rule, accumulator (one append per iteration) rule, channel payload provenance, assumption pruning",
		Trusted:   "go/types+go/ssa; purity of header observers; libp2p/serde library behaviour",
		Run:       runC13,
	})
}

func runC13(c *an.Ctx) {
	p := c.P
	get := p.Method("p2p", "Exchange", "Get")
	getBH := p.Method("p2p", "Exchange", "GetByHeight")
	perform := p.Method("p2p", "Exchange", "performRequest")
	request := p.Method("p2p", "Exchange", "request")
	proc := p.Func("p2p", "processResponses")
	conv := p.Func("p2p", "convertStatusCodeToError")
	valChain := p.Func("p2p", "validateChainID")
	ok := c.Need(get, "C13.a", "p2p.(*Exchange).Get")
	ok = c.Need(getBH, "C13.e", "p2p.(*Exchange).GetByHeight") && ok
	ok = c.Need(perform, "C13.d", "p2p.(*Exchange).performRequest") && ok
	ok = c.Need(request, "C13.c", "p2p.(*Exchange).request") && ok
	ok = c.Need(proc, "C13.b", "p2p.processResponses") && ok
	ok = c.Need(conv, "C13.b", "p2p.convertStatusCodeToError") && ok
	if !ok {
		return
	}

	checkHashBoundPerAnswer(c, "C13.a", request)

	// --- C13.a / C13.e on Get and GetByHeight
	for _, fn := range []*ssa.Function{get, getBH} {
		t, ff := c.T(fn), c.F(fn)
		calls := callsTo(fn, perform)
		c.Min("C13.e", "performRequest calls in "+an.FuncName(fn), len(calls), 1)
		if len(calls) != 1 {
			continue
		}
		pc := calls[0]
		hdrs, perr := t.Of(pc)+"#0", t.Of(pc)+"#1"
		first := hdrs + "[0]"
		// request literal: Amount constant 1
		reqArg := pc.Call.Args[len(pc.Call.Args)-1]
		amount := ""
		if al, ok := reqArg.(*ssa.Alloc); ok && al.Referrers() != nil {
			for _, r := range *al.Referrers() {
				if fa, ok := r.(*ssa.FieldAddr); ok && isFieldOf(fa, nil, "Amount") && fa.Referrers() != nil {
					for _, rr := range *fa.Referrers() {
						if st, ok := rr.(*ssa.Store); ok {
							amount = t.Of(st.Val)
						}
					}
				}
			}
		}
		c.Check(amount == "1", "C13.e", "amount-one:"+an.FuncName(fn), "single-header requests are built with the constant Amount 1 (so the empty nil-error result of performRequest is unreachable)", fn, pc, "Amount = "+amount, nil)
		n := 0
		for _, r := range ff.Returns() {
			if t.ErrShape(errResult(r)) != "nil" {
				continue
			}
			n++
			fs := ff.AtInstr(r)
			okR := fs.Has(an.EQ(perr, "nil")) && t.Of(r.Results[0]) == first
			c.Check(okR, "C13.e", "returns-first:"+an.FuncName(fn), "the nil-error result is headers[0] of a successful performRequest", fn, r, "returns "+t.Of(r.Results[0]), fs)
			if fn == get {
				want := an.B("bytes.Equal(Hash(" + first + "),p2)")
				want2 := an.B("bytes.Equal(p2,Hash(" + first + "))")
				c.Check(fs.Has(want) || fs.Has(want2), "C13.a", "hash-binding", "Get returns a header only if its Hash() equals the requested hash", fn, r, "required "+want.String(), fs)
			}
		}
		c.Min("C13.e", "nil-error returns of "+an.FuncName(fn), n, 1)
		// zero header never with nil error: every other return has a non-nil error
		for _, r := range ff.Returns() {
			if t.ErrShape(errResult(r)) == "nil" {
				continue
			}
			if fs := ff.AtInstr(r); fs.Has(an.EQ(perr, "nil")) && fn == getBH {
				c.Fail("C13.e", "error-after-success:"+an.FuncName(fn), "GetByHeight fails only when the request failed", fn, r, "", fs)
			}
		}
	}
	// GetByHeight rejects height 0 before any request
	{
		t, ff := c.T(getBH), c.F(getBH)
		for _, pc := range callsTo(getBH, perform) {
			c.Check(ff.AtInstr(pc).Has(an.NE("p2", "0")), "C13.e", "height-zero-rejected", "GetByHeight(0) is rejected locally (origin 0 would be a head request)", getBH, pc, "", ff.AtInstr(pc))
		}
		_ = t
	}

	// --- C13.b processResponses
	{
		t, ff := c.T(proc), c.F(proc)
		empty := an.EQ("len(p0)", "0")
		pr := ff.Prune(empty)
		for _, r := range pr.Returns() {
			c.Check(t.ErrShape(errResult(r)) == "S:p2p.errEmptyResponse", "C13.b", "empty-response", "an empty response list is an error (errEmptyResponse)", proc, r, t.ErrShape(errResult(r)), nil)
		}
		loop := loopOver(t, "p0")
		if loop == nil {
			c.Undecided("C13.b", "loop", "processResponses walks every response in order", proc, nil, "no index-walk loop over the responses found")
		} else {
			acc := findAccumulator(ff, loop.Header)
			if acc == nil {
				c.Undecided("C13.b", "accumulator", "decoded headers are collected by one append per response", proc, nil, "no accumulator found")
			} else {
				c.Check(acc.FreshOK, "C13.b", "fresh-result", "the result starts as a fresh empty slice", proc, acc.Phi, "", nil)
				hdr := ff.Unphi(acc.Added)
				fs := ff.AtInstr(acc.Append)
				var unm, val *ssa.Call
				var cv *ssa.Call
				an.Instrs(proc, func(in ssa.Instruction) {
					call, ok := in.(*ssa.Call)
					if !ok {
						return
					}
					if call.Call.IsInvoke() && call.Call.Value == hdr {
						switch call.Call.Method.Name() {
						case "UnmarshalBinary":
							unm = call
						case "Validate":
							val = call
						}
					}
					if an.StaticCallee(&call.Call) == conv {
						cv = call
					}
				})
				okU := unm != nil && fs.Has(an.EQ(t.Of(unm), "nil")) && len(unm.Call.Args) == 1 && strings.HasSuffix(an.Stable(t.Of(unm.Call.Args[0])), "p0["+an.Stable(t.Of(loop.K))+"].Body")
				c.Check(okU, "C13.b", "unmarshal-guard", "a header is appended only after UnmarshalBinary(response.Body) of that header returned nil", proc, acc.Append, "", fs)
				okV := val != nil && fs.Has(an.EQ(t.Of(val), "nil"))
				c.Check(okV, "C13.b", "validate-guard", "a header is appended only after Validate() of that header returned nil", proc, acc.Append, "", fs)
				okC := cv != nil && fs.Has(an.EQ(t.Of(cv), "nil")) && strings.HasSuffix(an.Stable(t.Of(cv.Call.Args[0])), "p0["+an.Stable(t.Of(loop.K))+"].StatusCode")
				c.Check(okC, "C13.b", "status-guard", "a header is appended only after the response's status code converted to a nil error", proc, acc.Append, "", fs)
				// fresh header per response
				fresh := false
				if call, ok := hdr.(*ssa.Call); ok {
					if cal := an.StaticCallee(&call.Call); cal != nil && an.FuncName(cal) == "header.New" && ff.Dominates(loop.Header, call.Block()) && call.Block() != loop.Header {
						fresh = true
					}
				}
				c.Check(fresh, "C13.b", "fresh-header", "every response is decoded into a fresh header value", proc, acc.Append, "appended "+t.Of(hdr), nil)
				// nil-error returns: only the loop exit returning the accumulator
				n := 0
				for _, r := range ff.Returns() {
					if t.ErrShape(errResult(r)) != "nil" {
						continue
					}
					n++
					fsr := ff.AtInstr(r)
					c.Check(fsr.Has(loop.InLoop.Neg()) && fsr.Has(empty.Neg()) && t.Of(r.Results[0]) == t.Of(acc.Phi), "C13.b", "nil-return-after-all",
						"processResponses returns nil-error only after every response was decoded, returning the collected headers (one per response, hence non-empty)", proc, r, "", fsr)
				}
				c.Min("C13.b", "nil-error returns of processResponses", n, 1)
				// every back edge passes the append (one header per response)
				for i, pred := range loop.Header.Preds {
					if ff.Dominates(loop.Header, pred) {
						c.Check(pred == acc.Append.Block() || ff.Dominates(acc.Append.Block(), pred), "C13.b", "append-every-iteration", "every iteration that continues has appended its header", proc, acc.Append, "", nil)
						_ = i
					}
				}
			}
		}
	}

	// status conversion: nil only for OK (an unknown code is an error)
	if codeOK := pbConst(c, "StatusCode_OK"); codeOK != "" {
		ct, cf := c.T(conv), c.F(conv)
		n := 0
		for _, r := range cf.Returns() {
			switch sh := ct.ErrShape(errResult(r)); {
			case sh == "nil":
				n++
				c.Check(cf.AtInstr(r).Has(an.EQ("p0", codeOK)), "C13.b", "status-ok-only", "only status OK converts to a nil error (unknown codes are errors)", conv, r, "", cf.AtInstr(r))
			case strings.HasPrefix(sh, "prop("):
				// neither nil nor constructed here: the codes looked up in a constant table
				n++
				checkStatusTable(c, conv, r, codeOK)
			}
		}
		c.Min("C13.b", "nil returns of convertStatusCodeToError", n, 1)
	}

	// --- C13.c request + validateChainID
	{
		t, ff := c.T(request), c.F(request)
		pcs := callsTo(request, proc)
		c.Min("C13.c", "processResponses calls in request", len(pcs), 1)
		if len(pcs) == 1 {
			hd := t.Of(pcs[0]) + "#0"
			loop := loopOver(t, hd)
			vcs := callsTo(request, valChain)
			if valChain == nil && loop != nil && len(loop.Elems) > 0 {
				// the helper was folded into the loop: the same decision is taken in request itself
				want := "p0.Params.chainID"
				mismatch := []an.Fact{an.NE(want, `const("")`), an.NotB("strings.EqualFold(" + want + ",ChainID(" + t.Of(loop.Elems[0]) + "))")}
				pr := ff.Prune(mismatch...)
				nn := 0
				for _, r := range pr.Returns() {
					if pr.AtInstr(r).Has(loop.InLoop) {
						nn++
						c.Check(t.ErrShape(errResult(r)) != "nil", "C13.c", "chain-mismatch-error", "a configured chain id that differs (case-insensitively) from the header's makes request fail", request, r, t.ErrShape(errResult(r)), nil)
					}
				}
				c.Min("C13.c", "returns of request under a chain-id mismatch", nn, 1)
				for _, pred := range loop.Header.Preds {
					if ff.Dominates(loop.Header, pred) {
						c.Check(!pr.Reachable(pred) || pr.Removed(pred, loop.Header), "C13.c", "continue-needs-valid-chain", "the loop continues only when the header's chain id was accepted", request, nil, "", nil)
					}
				}
				n := 0
				for _, r := range ff.Returns() {
					if t.ErrShape(errResult(r)) != "nil" {
						continue
					}
					n++
					fsr := ff.AtInstr(r)
					c.Check(fsr.Has(loop.InLoop.Neg()) && t.Of(r.Results[0]) == hd && fsr.Has(an.EQ(t.Of(pcs[0])+"#1", "nil")), "C13.c", "nil-return-after-all",
						"request returns nil-error only after every decoded header passed the chain-id check, returning exactly the decoded headers", request, r, "", fsr)
				}
				c.Min("C13.c", "nil-error returns of request", n, 1)
			} else if loop == nil || len(vcs) != 1 {
				c.Undecided("C13.c", "chain-loop", "request checks the chain id of every decoded header", request, nil, "no index-walk loop over the decoded headers with one validateChainID call")
			} else {
				vc := vcs[0]
				okArgs := t.Of(vc.Call.Args[0]) == "p0.Params.chainID" && len(loop.Elems) > 0 && t.Of(vc.Call.Args[1]) == "ChainID("+t.Of(loop.Elems[0])+")"
				c.Check(okArgs, "C13.c", "chain-args", "validateChainID compares the configured chain id with the ChainID() of the current header", request, vc, "args ("+t.Of(vc.Call.Args[0])+", "+t.Of(vc.Call.Args[1])+")", nil)
				pr := ff.Prune(an.NE(t.Of(vc), "nil"))
				for _, r := range pr.Returns() {
					if pr.AtInstr(r).Has(an.NE(t.Of(vc), "nil")) {
						c.Check(t.ErrShape(errResult(r)) != "nil", "C13.c", "chain-error-returned", "a chain-id mismatch makes request fail", request, r, "", nil)
					}
				}
				for i, pred := range loop.Header.Preds {
					_ = i
					if ff.Dominates(loop.Header, pred) {
						ef := ff.EdgeFacts(pred, loop.Header)
						c.Check(ef.Has(an.EQ(t.Of(vc), "nil")), "C13.c", "continue-needs-valid-chain", "the loop continues only when the header's chain id was accepted", request, vc, "", ef)
					}
				}
				n := 0
				for _, r := range ff.Returns() {
					if t.ErrShape(errResult(r)) != "nil" {
						continue
					}
					n++
					fsr := ff.AtInstr(r)
					c.Check(fsr.Has(loop.InLoop.Neg()) && t.Of(r.Results[0]) == hd && fsr.Has(an.EQ(t.Of(pcs[0])+"#1", "nil")), "C13.c", "nil-return-after-all",
						"request returns nil-error only after every decoded header passed the chain-id check, returning exactly the decoded headers", request, r, "", fsr)
				}
				c.Min("C13.c", "nil-error returns of request", n, 1)
			}
		}
		if valChain != nil {
			vt, vf := c.T(valChain), c.F(valChain)
			pr := vf.Prune(an.NE("p0", `const("")`), an.NotB("strings.EqualFold(p0,p1)"))
			nn := 0
			for _, r := range pr.Returns() {
				nn++
				c.Check(vt.ErrShape(errResult(r)) != "nil", "C13.c", "chain-mismatch-error", "validateChainID returns an error for a configured chain id that differs (case-insensitively) from the header's", valChain, r, vt.ErrShape(errResult(r)), nil)
			}
			c.Min("C13.c", "returns of validateChainID under mismatch", nn, 1)
		}
	}

	// --- C13.d performRequest
	{
		t, ff := c.T(perform), c.F(perform)
		nNil := 0
		var recvTerm string
		for _, vr := range virtualReturns(ff) {
			r := vr.r
			if t.ErrShape(vr.err()) != "nil" {
				continue
			}
			fs := vr.fs
			res0 := t.Of(vr.res[0])
			if fs.Has(an.EQ("p2.Amount", "0")) {
				c.Ok("C13.d", "amount-zero-empty", "Amount==0 is the only way to an empty nil-error result", perform, r, "", fs)
				continue
			}
			nNil++
			okR := strings.HasSuffix(res0, ".headers") && fs.Has(an.EQ(strings.TrimSuffix(res0, ".headers")+".err", "nil")) && fs.Has(an.NE("p2.Amount", "0"))
			if okR {
				recvTerm = strings.TrimSuffix(res0, ".headers")
			}
			c.Check(okR, "C13.d", "first-valid", "performRequest returns (r.headers, nil) only under r.err == nil for the same received result r", perform, r, "returns "+res0, fs)
		}
		c.Min("C13.d", "successful returns of performRequest", nNil, 1)
		checkRequestsUnderTimeout(c, "C13.d", perform, request)
		checkDoneErrSameContext(c, "C13.d", perform)
		checkEveryAttemptReports(c, "C13.d", perform)
		// a failed attempt of one peer does not end the request: no way out of performRequest lies on the
		// path of "this received result failed" — the others are still awaited
		if recvTerm != "" {
			failed := an.NE(recvTerm+".err", "nil")
			okCont := true
			var at ssa.Instruction
			for _, vr := range virtualReturns(ff) {
				r, fs := vr.r, vr.fs
				if !fs.Has(failed) {
					continue
				}
				// in a rotated loop (`for range n`) the way out after the last peer also lies behind
				// "the last result failed": it is recognised by the loop's own exit test (counter ≥ bound)
				exhausted := false
				for _, f := range fs {
					if f.Op != "LT" || f.Pos || !strings.HasPrefix(f.B, "len(") || !strings.Contains(f.A, "phi@") {
						continue
					}
					// the counter must be the collecting loop's own (not the one of the spawning loop before it)
					name := f.A[strings.Index(f.A, "phi@")+4:]
					for i, ch := range name {
						if (ch < '0' || ch > '9') && ch != 't' {
							name = name[:i]
							break
						}
					}
					for _, b := range perform.Blocks {
						for _, in := range b.Instrs {
							ph, isPhi := in.(*ssa.Phi)
							if !isPhi || ph.Name() != name {
								continue
							}
							for _, sb := range perform.Blocks {
								for _, sin := range sb.Instrs {
									if sel, isSel := sin.(*ssa.Select); isSel && strings.HasPrefix(recvTerm, t.Of(sel)) {
										if (b == sb || blockReaches(b, sb)) && (b == sb || blockReaches(sb, b)) {
											exhausted = true
										}
									}
								}
							}
						}
					}
				}
				if !exhausted {
					okCont, at = false, r
				}
			}
			c.Check(okCont, "C13.d", "failed-attempt-continues", "a failed answer of one trusted peer never ends the request: the remaining peers are still awaited (only the last collected failure is reported, after all of them)", perform, at, "", nil)
		}
		// producers: every send on a channel of the result type inside performRequest's closures
		nSend := 0
		for _, cl := range perform.AnonFuncs {
			ct := c.T(cl)
			an.Instrs(cl, func(in ssa.Instruction) {
				s, ok := in.(*ssa.Send)
				if !ok {
					return
				}
				nSend++
				val := ct.Deref(s.X)
				okS := false
				detail := ct.Of(val)
				if al, ok := an.Unwrap(val).(*ssa.Alloc); ok {
					_ = al
				}
				// struct literal: loads of a local alloc with field stores
				if u, ok := s.X.(*ssa.UnOp); ok {
					if al, ok := u.X.(*ssa.Alloc); ok && al.Referrers() != nil {
						fields := map[string]string{}
						for _, r := range *al.Referrers() {
							if fa, ok := r.(*ssa.FieldAddr); ok && fa.Referrers() != nil {
								for _, rr := range *fa.Referrers() {
									if st, ok := rr.(*ssa.Store); ok && st.Addr == fa {
										name := fieldName(fa)
										fields[name] = ct.Of(st.Val)
									}
								}
							}
						}
						detail = "{headers:" + fields["headers"] + ", err:" + fields["err"] + "}"
						var rc *ssa.Call
						an.Instrs(cl, func(in2 ssa.Instruction) {
							if call, ok := in2.(*ssa.Call); ok && an.StaticCallee(&call.Call) == request {
								rc = call
							}
						})
						if rc != nil && fields["headers"] == ct.Of(rc)+"#0" && fields["err"] == ct.Of(rc)+"#1" {
							okS = true
						}
					}
				}
				c.Check(okS, "C13.d", "producer", "the only values sent to the result channel are the (headers, err) pairs returned by request", cl, s, detail, nil)
			})
		}
		c.Min("C13.d", "result producers (channel sends)", nSend, 1)
		// no trusted peers
		for _, f := range condFacts(t) {
			if f.Op == "EQ" && strings.HasPrefix(f.A, "0") && strings.HasPrefix(f.B, "len(") {
				pr := ff.Prune(an.NE("p2.Amount", "0"), an.EQ(f.A, f.B))
				for _, r := range pr.Returns() {
					c.Check(t.ErrShape(errResult(r)) != "nil", "C13.d", "no-trusted-peers", "without trusted peers performRequest fails with an error", perform, r, t.ErrShape(errResult(r)), nil)
				}
			}
		}
		// all failed: the return after the collecting loop returns lastErr, whose loop-carried value is r.err under r.err != nil
		if recvTerm != "" {
			for _, vr := range virtualReturns(ff) {
				r := vr.r
				ev := t.Deref(vr.err())
				ph, ok := ev.(*ssa.Phi)
				if !ok {
					continue
				}
				isHeader := false
				for _, pred := range ph.Block().Preds {
					if ff.Dominates(ph.Block(), pred) {
						isHeader = true
					}
				}
				if !isHeader {
					// the loop is rotated (`for range n`): the collected error is merged where the loop is
					// left. Every way the merge can be reached must bring a non-nil error: an edge that
					// brings nil (no attempt failed yet) has to be infeasible — the loop runs at least once
					// and is left early only by returns of their own
					seenPhi := map[*ssa.Phi]bool{}
					var leafOK func(v ssa.Value, fs an.FactSet, depth int) bool
					leafOK = func(v ssa.Value, fs an.FactSet, depth int) bool {
						if k, isK := v.(*ssa.Const); isK && k.IsNil() {
							return ff.ProveGEFacts(fs, an.Const(0), an.Const(1), 0)
						}
						if p2, isPhi := v.(*ssa.Phi); isPhi && depth < 4 {
							if seenPhi[p2] {
								return true
							}
							seenPhi[p2] = true
							for _, pe := range ff.PhiOperands(p2) {
								if !leafOK(pe.Val, pe.Facts, depth+1) {
									return false
								}
							}
							return true
						}
						return fs.Has(an.NE(t.Of(v), "nil")) || fs.Has(an.NE("nil", t.Of(v)))
					}
					c.Check(leafOK(ph, nil, 0), "C13.d", "all-failed-only-after-every-peer", "the error collected from failed attempts is returned only after every trusted peer has answered: the loop is left early only through returns of their own and runs at least once, so that error is never nil", perform, r, "merged where the loop is left", nil)
					continue
				}
				okLast := true
				for i, e := range ph.Edges {
					pred := ph.Block().Preds[i]
					if ff.Dominates(ph.Block(), pred) {
						okLast = okLast && t.Of(e) == recvTerm+".err" && ff.EdgeFacts(pred, ph.Block()).Has(an.NE(recvTerm+".err", "nil"))
					}
				}
				c.Check(okLast, "C13.d", "all-failed-error", "when every trusted peer failed, the error of a failed attempt is returned (every failing iteration records a non-nil error)", perform, r, "", nil)
				// … and that return is reached only when the loop has run out of peers: the collecting
				// loop is left early only by returns of their own, and it runs at least once
				hdr := ph.Block()
				inLoop := map[*ssa.BasicBlock]bool{}
				for _, b := range perform.Blocks {
					if ff.Dominates(hdr, b) && blockReaches(b, hdr) {
						inLoop[b] = true
					}
				}
				early := ""
				for b := range inLoop {
					if b == hdr {
						continue
					}
					for _, s := range b.Succs {
						if !inLoop[s] && vr.reachedFrom(b, s) {
							early = fmt.Sprintf("block %d leaves the loop towards this return", b.Index)
						}
					}
				}
				atLeastOnce := false
				if iff, isIf := hdr.Instrs[len(hdr.Instrs)-1].(*ssa.If); isIf {
					if cmp, isCmp := iff.Cond.(*ssa.BinOp); isCmp && cmp.Op == token.LSS {
						ln := t.Of(cmp.Y)
						atLeastOnce = strings.HasPrefix(ln, "len(") && (ff.At(hdr).Has(an.NE("0", ln)) || ff.At(hdr).Has(an.NE(ln, "0")) || ff.At(hdr).Has(an.LT("0", ln)))
					}
				}
				c.Check(early == "" && atLeastOnce, "C13.d", "all-failed-only-after-every-peer", "the error collected from failed attempts is returned only after every trusted peer has answered: the loop is left early only through returns of their own and runs at least once, so that error is never nil", perform, r,
					strings.TrimSpace(early+map[bool]string{true: "", false: " the loop is not proven to run at least once"}[atLeastOnce]), nil)
			}
		}
	}

	// --- C13.e remaining index sites
	n := checkArith(c, "C13.e", []*ssa.Function{proc, request, perform}, map[string]bool{"index": true, "slice": true, "usub": true, "makesize": true}, nil, nil)
	c.Min("C13.e", "index sites in the decoding path", n, 2)
}

func fieldName(fa *ssa.FieldAddr) string {
	st, ok := derefStruct(fa)
	if !ok {
		return ""
	}
	return st.Field(fa.Field).Name()
}
