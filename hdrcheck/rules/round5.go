package rules

import (
	"go/types"
	"strings"

	"golang.org/x/tools/go/ssa"

	"hdrcheck/an"
)

// Clauses that came out of the fifth seeding round.

// checkPendingDeleteRangeExact (C04.a): the pending batch's DeleteRange(from, to) is called by the
// per-height deletion step as (h, h+1). It removes entries of the half-open range [from, to) only:
// with an inclusive upper bound, deleting height h also drops the header at h+1 while it is still
// pending — a header that exists nowhere else — and the tail cannot be moved to it.
// Two forms are understood: maps.DeleteFunc with a predicate, and a loop with delete().
func checkPendingDeleteRangeExact(c *an.Ctx, id string) {
	fn := c.P.Method("store", "batch", "DeleteRange")
	if !c.Need(fn, id, "store.(*batch).DeleteRange") {
		return
	}
	rule := "the pending batch removes an entry only when its height lies in [from, to) (the per-height deletion step calls it as (h, h+1))"
	// (terms are compared in their stable form: every load of a captured variable has its own register)
	inRange := func(fs an.FactSet, h, from, to string) bool {
		h, from, to = an.Stable(h), an.Stable(from), an.Stable(to)
		lo, hi := false, false
		for _, f := range fs {
			if f.Op != "LT" {
				continue
			}
			a, b := an.Stable(f.A), an.Stable(f.B)
			if !f.Pos && a == h && b == from { // ¬(h < from)
				lo = true
			}
			if f.Pos && a == h && b == to { // h < to
				hi = true
			}
		}
		return lo && hi
	}
	n := 0
	// predicates handed to maps.DeleteFunc
	for _, cl := range fn.AnonFuncs {
		ct, cf := c.T(cl), c.F(cl)
		h := ""
		for i, p := range cl.Params {
			if b, ok := p.Type().Underlying().(*types.Basic); ok && b.Kind() == types.Uint64 {
				h = "p" + itoa(i)
			}
		}
		var from, to string
		for _, fv := range cl.FreeVars {
			switch fv.Name() {
			case fn.Params[1].Name():
				from = ct.Of(fv)
			case fn.Params[2].Name():
				to = ct.Of(fv)
			}
		}
		if h == "" || cl.Signature.Results().Len() == 0 {
			continue
		}
		// free variables are cells: the terms of their loads
		an.Instrs(cl, func(in ssa.Instruction) {
			if u, ok := in.(*ssa.UnOp); ok {
				if fv, isFV := u.X.(*ssa.FreeVar); isFV {
					switch fv.Name() {
					case fn.Params[1].Name():
						from = ct.Of(u)
					case fn.Params[2].Name():
						to = ct.Of(u)
					}
				}
			}
		})
		for _, r := range cf.Returns() {
			if len(r.Results) != 1 {
				continue
			}
			n++
			v := r.Results[0]
			if k, isK := v.(*ssa.Const); isK && k.Value != nil && k.Value.ExactString() == "false" {
				c.Ok(id, "pending-delete-range-exact", rule, cl, r, "keeps the entry", nil)
				continue
			}
			// the decision handed to a local predicate of the same function (`inRange := func(h uint64) bool {…}`),
			// which is checked as a predicate of its own
			if call, isCall := v.(*ssa.Call); isCall && len(call.Call.Args) == 1 && ct.Of(call.Call.Args[0]) == h {
				if g := localClosure(fn, call.Call.Value); g != nil && g != cl {
					c.Ok(id, "pending-delete-range-exact", rule, cl, r, "decided by "+an.FuncName(g), nil)
					continue
				}
			}
			// the predicate's value: a comparison, or the merge of a short-circuit `a && b`
			edges := []an.PhiEdge{{Val: v, Facts: cf.AtRefined(r.Block())}}
			if ph, isPhi := v.(*ssa.Phi); isPhi && ph.Block() == r.Block() {
				edges = cf.PhiOperands(ph)
			}
			okP := from != "" && to != ""
			var shown an.FactSet
			for _, e := range edges {
				if k, isK := e.Val.(*ssa.Const); isK && k.Value != nil && k.Value.ExactString() == "false" {
					continue
				}
				fs := append(append(an.FactSet{}, e.Facts...), ct.Cond(e.Val))
				shown = fs
				okP = okP && inRange(fs, h, from, to)
			}
			c.Check(okP, id, "pending-delete-range-exact", rule, cl, r, "", shown)
		}
	}
	// explicit delete() calls
	t, ff := c.T(fn), c.F(fn)
	an.Instrs(fn, func(in ssa.Instruction) {
		call, ok := in.(*ssa.Call)
		if !ok {
			return
		}
		b, isB := call.Call.Value.(*ssa.Builtin)
		if !isB || b.Name() != "delete" || len(call.Call.Args) != 2 {
			return
		}
		n++
		fs := ff.AtInstr(call)
		okR := false
		key := t.Of(call.Call.Args[1])
		keyIsHeight := false
		if bt, isBasic := call.Call.Args[1].Type().Underlying().(*types.Basic); isBasic && bt.Kind() == types.Uint64 {
			keyIsHeight = true
		}
		for _, f := range fs {
			if f.Op != "LT" {
				continue
			}
			for _, h := range []string{f.A, f.B} {
				if keyIsHeight && h != key {
					continue
				}
				if inRange(fs, h, "p1", "p2") {
					okR = true
				}
			}
		}
		c.Check(okR, id, "pending-delete-range-exact", rule, fn, call, "", fs)
	})
	c.Min(id, "removals of the pending batch's DeleteRange", n, 2)
}

// checkHeightReinitialisedWithHead (C04.c): `Height() == Head().Height()`. The published height is a
// running maximum everywhere (SetHeight only raises it) except at one place: when ensureInit gives an
// empty store — a fresh one, or one whose chain was deleted as a whole, which keeps the old published
// height because SetHeight(0) cannot lower it — its first head, the height is stored unconditionally.
// With the monotone setter there the height of a wiped store stays at the old maximum for good.
func checkHeightReinitialisedWithHead(c *an.Ctx, id string) {
	fn := c.P.Method("store", "Store", "ensureInit")
	if !c.Need(fn, id, "store.(*Store).ensureInit") {
		return
	}
	t, ff := c.T(fn), c.F(fn)
	rule := "the step that gives an empty store its head stores the published height unconditionally (the monotone SetHeight cannot lower the height a deleted chain left behind)"
	n := 0
	an.Instrs(fn, func(in ssa.Instruction) {
		cas, ok := in.(*ssa.Call)
		if !ok || !strings.HasSuffix(an.StaticFullName(&cas.Call), "atomic.Pointer[T]).CompareAndSwap") {
			return
		}
		if !(isRecvFieldVia(t, cas.Call.Args[0], "contiguousHead") || an.Stable(t.Of(cas.Call.Args[0])) == "&p0.contiguousHead") {
			return
		}
		n++
		newHead := ""
		if al, isAl := cas.Call.Args[2].(*ssa.Alloc); isAl {
			for _, s := range an.AllocStores(al) {
				newHead = t.Of(s.Val)
			}
		}
		okInit := false
		an.Instrs(fn, func(in2 ssa.Instruction) {
			call, isCall := in2.(*ssa.Call)
			if !isCall || len(call.Call.Args) != 2 {
				return
			}
			cal := an.StaticCallee(&call.Call)
			if cal == nil || !storesHeightUnconditionally(c, cal) {
				return
			}
			if t.Of(call.Call.Args[1]) == "Height("+newHead+")" && ff.AtRefined(call.Block()).Has(an.B(t.Of(cas))) {
				okInit = true
			}
		})
		// every way on after a successful swap passes such a call
		if okInit {
			pr := ff.Prune(an.B(t.Of(cas)))
			okInit, _ = (an.Flow{Fn: fn, Skip: pr.Removed}).MustFollow(cas, func(i ssa.Instruction) bool {
				call, isCall := i.(*ssa.Call)
				return isCall && an.StaticCallee(&call.Call) != nil && storesHeightUnconditionally(c, an.StaticCallee(&call.Call))
			}, nil)
		}
		c.Check(okInit, id, "height-reinitialised-with-head", rule, fn, cas, "new head "+an.Stable(newHead), nil)
	})
	c.Min(id, "head initialisations in ensureInit", n, 1)
}

// storesHeightUnconditionally: a method of heightSub that stores the published height (atomic Store on
// the height field) on every path to every return.
func storesHeightUnconditionally(c *an.Ctx, fn *ssa.Function) bool {
	if fn == nil || fn.Blocks == nil || fn.Signature.Recv() == nil || !strings.HasSuffix(types.TypeString(fn.Signature.Recv().Type(), nil), "store.heightSub") {
		return false
	}
	t, ff := c.T(fn), c.F(fn)
	isStore := func(in ssa.Instruction) bool {
		call, ok := in.(*ssa.Call)
		return ok && strings.HasSuffix(an.StaticFullName(&call.Call), "atomic.Uint64).Store") && len(call.Call.Args) == 2 && strings.HasSuffix(an.Stable(t.Of(call.Call.Args[0])), "p0.height") && t.Of(call.Call.Args[1]) == "p1"
	}
	fl := an.Flow{Fn: fn}
	n := 0
	for _, r := range ff.Returns() {
		n++
		if !fl.MustPrecede(isStore, r) {
			return false
		}
	}
	return n > 0
}

// checkPendingRangeAppendOnly (C03.g): headerRange.Get hands out a sub-slice of the range's own backing
// array, processHeaders passes it to the Store, and the Store only queues it: the elements are read
// later, by the write loop. The array of a pending range is therefore append-only — Remove re-slices,
// nothing copies into it, assigns its elements or reorders it in place. Shifting the remaining headers
// to the front "to keep the capacity" overwrites a batch that is still queued: a height is never
// written while the cached head already stands above the hole.
func checkPendingRangeAppendOnly(c *an.Ctx, id string) {
	rule := "the backing array of a pending range is append-only: what Get handed out (and the Store has only queued) is never overwritten in place"
	isHeaders := func(v ssa.Value) bool {
		for depth := 0; depth < 4 && v != nil; depth++ {
			switch x := v.(type) {
			case *ssa.Slice:
				v = x.X
				continue
			case *ssa.UnOp:
				if fa, ok := x.X.(*ssa.FieldAddr); ok && fieldName(fa) == "headers" && strings.Contains(types.TypeString(fa.X.Type(), nil), "sync.headerRange") {
					return true
				}
			}
			return false
		}
		return false
	}
	nFuncs, nAppend := 0, 0
	for _, fn := range c.P.RepoFuncs() {
		if fn.Blocks == nil || fn.Pkg == nil || !strings.HasSuffix(fn.Pkg.Pkg.Path(), "/sync") {
			continue
		}
		touches := false
		an.Instrs(fn, func(in ssa.Instruction) {
			switch x := in.(type) {
			case *ssa.Store:
				if ia, ok := x.Addr.(*ssa.IndexAddr); ok && isHeaders(ia.X) {
					touches = true
					c.Fail(id, "pending-range-array-append-only", rule, fn, x, "element assignment", nil)
				}
			case *ssa.Call:
				if b, ok := x.Call.Value.(*ssa.Builtin); ok && len(x.Call.Args) > 0 {
					switch b.Name() {
					case "copy", "clear":
						if isHeaders(x.Call.Args[0]) {
							touches = true
							c.Fail(id, "pending-range-array-append-only", rule, fn, x, b.Name()+" into the range's array", nil)
						}
					case "append":
						if isHeaders(x.Call.Args[0]) {
							touches = true
							nAppend++
							// appending to a RE-SLICE of the array that ends before the range does (headers[:0], headers[:k])
							// writes over what is there: only the whole range may be appended to
							if sl, isSl := x.Call.Args[0].(*ssa.Slice); isSl && sl.High != nil {
								c.Fail(id, "pending-range-array-append-only", rule, fn, x, "append to a shortened re-slice of the range's array", nil)
							}
						}
					}
					return
				}
				if name := an.StaticFullName(&x.Call); strings.HasPrefix(name, "slices.") || strings.HasPrefix(name, "sort.") {
					for _, a := range x.Call.Args {
						if isHeaders(a) {
							switch name {
							case "slices.Clone", "slices.Contains", "slices.Index", "slices.IndexFunc", "slices.ContainsFunc", "slices.Equal", "slices.IsSorted", "slices.IsSortedFunc", "slices.Max", "slices.Min":
							default:
								touches = true
								c.Fail(id, "pending-range-array-append-only", rule, fn, x, name+" works in place", nil)
							}
						}
					}
				}
			}
		})
		if touches {
			nFuncs++
		}
	}
	if nAppend > 0 {
		c.Ok(id, "pending-range-array-append-only", rule, c.P.Method("sync", "headerRange", "Append"), nil, itoa(nAppend)+" append site(s), no write in place", nil)
	}
	c.Min(id, "append sites of a pending range's array", nAppend, 1)
}

// localClosure resolves a callee value inside a closure of fn to the function literal of fn it denotes:
// `name := func(…){…}` in fn, captured by reference and called as `name(…)`.
func localClosure(fn *ssa.Function, v ssa.Value) *ssa.Function {
	u, ok := v.(*ssa.UnOp)
	if !ok {
		return nil
	}
	fv, ok := u.X.(*ssa.FreeVar)
	if !ok {
		return nil
	}
	var out *ssa.Function
	n := 0
	an.Instrs(fn, func(in ssa.Instruction) {
		st, isSt := in.(*ssa.Store)
		if !isSt {
			return
		}
		al, isAl := st.Addr.(*ssa.Alloc)
		if !isAl || al.Comment != fv.Name() {
			return
		}
		n++
		if mc, isMC := st.Val.(*ssa.MakeClosure); isMC {
			if g, isFn := mc.Fn.(*ssa.Function); isFn && g.Parent() == fn {
				out = g
			}
		} else if g, isFn := st.Val.(*ssa.Function); isFn && g.Parent() == fn {
			out = g
		}
	})
	if n != 1 {
		return nil
	}
	return out
}
