package store

// Demonstration for finding F27 (property C12).
// Copy into /repo/store and run: go test ./store -run 'TestF27' -count=1
//
// F27: getRangeByHeight (behind GetRange and GetRangeByHeight, the way the syncer and the local exchange read
//      ranges) opened its read transaction and only then called GetByHeight for the last height of the range,
//      which may wait for that height to be appended; getByHeight reuses the transaction it finds in the
//      context. On a datastore with snapshot-isolated read transactions (what a badger-backed datastore gives,
//      wrapped with go-datastore/context so that transactions are honoured) the whole wait and every read
//      after it ran against the data as of BEFORE the wait: a reader parked in GetRange(2, 5) with head 1 was
//      woken when 4 was appended, found 4 through the head pointer, walked back by hash, and failed with
//      "header: not found" for height 3 — neither cached nor pending any more, and absent from its snapshot —
//      although the whole range was stored. "GetByHeight returns the header as soon as it has been appended,
//      no matter how the append interleaves with the call": not for the context its own package hands it.
//      Noticed by a sixth-round seeder (C12). Rule C12.a `wait-not-under-read-transaction`; repaired by
//      /repo a7b8141: the transaction is opened after the waiting lookup returned.

import (
	"context"
	"testing"
	"time"

	"github.com/ipfs/go-datastore"
	contextds "github.com/ipfs/go-datastore/context"
	"github.com/ipfs/go-datastore/query"
	dssync "github.com/ipfs/go-datastore/sync"
	"github.com/stretchr/testify/require"

	"github.com/celestiaorg/go-header/headertest"
)

// f27SnapDS is an in-memory datastore with read transactions of snapshot isolation: a transaction sees
// the data as of the moment it was opened.
type f27SnapDS struct {
	*dssync.MutexDatastore
}

func (ds *f27SnapDS) NewTransaction(ctx context.Context, _ bool) (datastore.Txn, error) {
	res, err := ds.Query(ctx, query.Query{})
	if err != nil {
		return nil, err
	}
	entries, err := res.Rest()
	if err != nil {
		return nil, err
	}
	snap := datastore.NewMapDatastore()
	for _, e := range entries {
		if err := snap.Put(ctx, datastore.NewKey(e.Key), e.Value); err != nil {
			return nil, err
		}
	}
	return &f27Txn{MapDatastore: snap}, nil
}

type f27Txn struct {
	*datastore.MapDatastore
}

func (t *f27Txn) Commit(context.Context) error { return nil }
func (t *f27Txn) Discard(context.Context)      {}

func TestF27_ReaderParkedInGetRangeSeesWhatWasStoredDuringItsWait(t *testing.T) {
	ctx, cancel := context.WithTimeout(context.Background(), 8*time.Second)
	t.Cleanup(cancel)

	suite := headertest.NewTestSuite(t)
	snap := &f27SnapDS{MutexDatastore: dssync.MutexWrap(datastore.NewMapDatastore())}
	ds, ok := contextds.WrapDatastore(snap).(datastore.Batching)
	require.True(t, ok)
	store := NewTestStore(t, ctx, ds, suite.Head(), WithWriteBatchSize(1))

	next := suite.GenDummyHeaders(3) // heights 2,3,4
	errCh := make(chan error, 1)
	go func() {
		readCtx, readCancel := context.WithTimeout(ctx, 3*time.Second)
		defer readCancel()
		// [2,5): waits for 4, then walks back over 3 and 2 by hash
		_, err := store.GetRange(readCtx, 2, 5)
		errCh <- err
	}()
	require.Eventually(t, func() bool {
		store.heightSub.heightSubsLk.Lock()
		defer store.heightSub.heightSubsLk.Unlock()
		return len(store.heightSub.heightSubs) == 1
	}, 2*time.Second, time.Millisecond)

	// 2 and 3 go to disk one by one; 4 releases the reader
	require.NoError(t, store.Append(ctx, next[0]))
	require.NoError(t, store.Sync(ctx))
	require.NoError(t, store.Append(ctx, next[1]))
	require.NoError(t, store.Sync(ctx))
	require.NoError(t, store.Append(ctx, next[2]))
	require.NoError(t, <-errCh, "the whole range is stored")
}
