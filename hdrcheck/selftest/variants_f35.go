package selftest

// Finding F35 re-introduced (the by-hash binding checked only after an answer was picked), and equivalents.
func init() {
	const ex = "p2p/exchange.go"
	const guard = "\tif hash := req.GetHash(); len(hash) != 0 {\n\t\tfor _, hdr := range hdrs {\n\t\t\tif !bytes.Equal(hdr.Hash(), hash) {\n\t\t\t\treturn nil, fmt.Errorf(\"incorrect hash in header: expected %x, got %x\", hash, hdr.Hash())\n\t\t\t}\n\t\t}\n\t}\n"
	add(
		Variant{Prop: "C13", Name: "f35-hash-not-compared-per-answer", File: ex, Expect: "C13.a",
			Old: guard, New: ""},
		Variant{Prop: "C13", Name: "f35-hash-mismatch-only-logged", File: ex, Expect: "C13.a",
			Old: guard, New: "\tif hash := req.GetHash(); len(hash) != 0 {\n\t\tfor _, hdr := range hdrs {\n\t\t\tif !bytes.Equal(hdr.Hash(), hash) {\n\t\t\t\tlog.Warnw(\"incorrect hash in header\", \"peer\", to)\n\t\t\t}\n\t\t}\n\t}\n"},
		Variant{Prop: "C13", Name: "f35-only-the-first-header-compared-and-then-the-loop-left", File: ex, Expect: "C13.a",
			Old: guard, New: "\tif hash := req.GetHash(); len(hash) != 0 {\n\t\tfor _, hdr := range hdrs {\n\t\t\tif len(hdrs) > 1 {\n\t\t\t\tbreak\n\t\t\t}\n\t\t\tif !bytes.Equal(hdr.Hash(), hash) {\n\t\t\t\treturn nil, fmt.Errorf(\"incorrect hash in header: expected %x, got %x\", hash, hdr.Hash())\n\t\t\t}\n\t\t}\n\t}\n"},
		Variant{Prop: "C13", Name: "benign-f35-comparison-commuted-and-hash-in-a-local", File: ex,
			Old: guard, New: "\twant := req.GetHash()\n\tif len(want) != 0 {\n\t\tfor _, hdr := range hdrs {\n\t\t\tif got := hdr.Hash(); !bytes.Equal(want, got) {\n\t\t\t\treturn nil, fmt.Errorf(\"incorrect hash in header: expected %x, got %x\", want, got)\n\t\t\t}\n\t\t}\n\t}\n"},
	)
}
