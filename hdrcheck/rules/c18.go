package rules

import (
	"fmt"
	"strings"

	"golang.org/x/tools/go/ssa"

	"hdrcheck/an"
)

func init() {
	register(&Rule{
		ID: "C18",
		Explanation: "Decides the structural conditions for completeness of a split range request: (a) no sub-request is dropped: every exit of the per-request worker has delivered its headers or re-enqueued a request, the only other exit being the closed-session case; " +
			"(b) a short answer re-requests exactly the remainder: origin = last received height+1, amount = req.Amount−len(h), and still delivers what was received; " +
			"(c) the splitting loop is underflow-free (amount −= per only under amount ≥ per), divides only by a per-peer size proven non-zero at every call site (validated MaxHeadersPerRangeRequest, or req.Amount ≥ 1), captures each origin before advancing it, and strictly decreases amount on every iteration; " +
			"(d) a peer is returned to the queue on success and on NOT_FOUND; queue tokens and heap entries are paired (push: heap push then one token; pop: token then heap pop; token capacity = number of peers); " +
			"(e) the client never reads more than req.Amount responses and maps only OK to success.",
		NotDecided: []string{
			"that the chunks produced by the splitter tile [from, from+amount) for all (from, amount, per): a numeric loop invariant, not attempted",
			"completion under timeouts and disconnects, peer-queue scheduling, liveness",
			"byte-level round trip of the wire encoding (library marshalling)",
		},
		Technique: "pairing/must-precede rules over CFG incl. select statements, term equality for the remainder request, arithmetic-safety obligations with inter-procedural non-zero argument proof, loop-variant structure check",
		Trusted:   "go/types+go/ssa; purity of protobuf getters; container/heap semantics",
		Run:       runC18,
		Imports: []Import{
			{From: "C13.d", Match: "failed-attempt-continues", As: "C18.f", Why: "Get and GetByHeight return the servers' data when the honest trusted peers together hold it: a NOT_FOUND (or any failure) of one lagging peer must not end the request while another peer can still answer"},
			{From: "C13.d", Match: "all-failed-only-after-every-peer", As: "C18.f", Why: "see failed-attempt-continues"},
		},
	})
}

// paramNonZero proves that parameter idx of fn is ≥ 1 at every call site in the repository.
func paramNonZero(c *an.Ctx, fn *ssa.Function, idx, depth int) (bool, string) {
	if depth > 4 {
		return false, "call chain too deep"
	}
	sites := c.P.CG().Sites(fn)
	if len(sites) == 0 {
		return false, "no call site of " + an.FuncName(fn)
	}
	var whys []string
	for _, cs := range sites {
		call := cs.Instr
		if cs.Kind == "go" || cs.Kind == "defer" || call == nil || idx >= len(call.Common().Args) {
			return false, "unsupported call of " + an.FuncName(fn) + " in " + an.FuncName(cs.Caller)
		}
		t, ff := c.T(cs.Caller), c.F(cs.Caller)
		arg := call.Common().Args[idx]
		term := t.Of(arg)
		switch {
		case ff.ProveGE(call.Block(), t.Affine(arg), an.Const(1), 0):
			whys = append(whys, an.FuncName(cs.Caller)+": "+term+" ≥ 1 by guard facts")
		case len(term) >= 2 && term[0] == 'p' && isDigits(term[1:]):
			k := 0
			fmt.Sscanf(term[1:], "%d", &k)
			ok, why := paramNonZero(c, cs.Caller, k, depth+1)
			if !ok {
				return false, why
			}
			whys = append(whys, why)
		case strings.HasPrefix(term, "p0.Params."):
			field := strings.TrimPrefix(term, "p0.Params.")
			ok, why := validatedNonZero(c, "p2p", "ClientParameters", field)
			if !ok {
				return false, why
			}
			if !constructorValidates(c, c.P.Func("p2p", "NewExchange"), "p2p", "ClientParameters") {
				return false, "NewExchange does not fail on a Validate error"
			}
			whys = append(whys, why)
		default:
			return false, an.FuncName(cs.Caller) + " passes " + term + ", not proven non-zero"
		}
	}
	return true, strings.Join(whys, "; ")
}

func isDigits(s string) bool {
	if s == "" {
		return false
	}
	for _, r := range s {
		if r < '0' || r > '9' {
			return false
		}
	}
	return true
}

func runC18(c *an.Ctx) {
	s, ok := resolveSession(c, "C18.a")
	if !ok {
		return
	}
	// --- C18.a
	checkNoDroppedRequest(c, "C18.a", s)
	checkDispatcher(c, "C18.a", s)
	checkCollectsUntilComplete(c, "C18.b", s.sesGet)
	checkStartRenewsContext(c, "C18.a", c.P.Method("p2p", "Exchange", "Start"), "p2p.(*Exchange)")
	checkScoreDecay(c, "C18.d")

	// --- C18.b remainder re-request
	dt, df := c.T(s.doReq), c.F(s.doReq)
	pcs := callsTo(s.doReq, s.sProc)
	if len(pcs) != 1 {
		c.Undecided("C18.b", "processResponses-call", "doRequest decodes the response once", s.doReq, nil, "unexpected number of session.processResponses calls")
		return
	}
	hT := dt.Of(pcs[0]) + "#0"
	eT := dt.Of(pcs[0]) + "#1"
	if nonEmptyChain(c, "C18.b", s) && sendMessageBound(c, "C18.e", s) {
		df.Implications = append(df.Implications, an.Implication{If: an.EQ(eT, "nil"), Then: an.FactSet{
			an.NE("len("+hT+")", "0"), an.LE("len("+hT+")", "p3.Amount"),
		}})
	}
	checkRemainderRequest(c, "C18.b", s)
	checkStreamReadDeadline(c, "C18.e", s.sendMsg)

	// --- C18.c splitting arithmetic
	pt, pf := c.T(s.prep), c.F(s.prep)
	perOK, perWhy := paramNonZero(c, s.prep, 2, 0)
	c.Check(perOK, "C18.c", "per-peer-nonzero", "the per-peer request size passed to prepareRequests is proven ≥ 1 at every call site (validated MaxHeadersPerRangeRequest or req.Amount ≥ 1)", s.prep, nil, perWhy, nil)
	if perOK {
		pf.Assume = append(pf.Assume, an.NE("p2", "0"))
	}
	n := checkArith(c, "C18.c", []*ssa.Function{s.prep}, map[string]bool{"usub": true, "div": true, "index": true, "slice": true, "makesize": true}, func(term string) (bool, string) {
		if term == "p2" && perOK {
			return true, "per-peer size proven non-zero at every call site: " + perWhy
		}
		return false, ""
	}, nil)
	c.Min("C18.c", "arithmetic sites in prepareRequests", n, 2)
	// loop structure
	var fromPhi, amountPhi *ssa.Phi
	for _, b := range s.prep.Blocks {
		for _, in := range b.Instrs {
			ph, isPhi := in.(*ssa.Phi)
			if !isPhi {
				break
			}
			for _, e := range ph.Edges {
				switch pt.Of(e) {
				case "p0":
					fromPhi = ph
				case "p1":
					amountPhi = ph
				}
			}
		}
	}
	if fromPhi == nil || amountPhi == nil {
		c.Undecided("C18.c", "split-loop", "prepareRequests carries `from` and `amount` through one loop", s.prep, nil, "loop-carried from/amount not found")
	} else {
		// origin captured before the increment: every Origin store uses the loop-header value of from
		nOrig := 0
		an.Instrs(s.prep, func(in ssa.Instruction) {
			st, ok := in.(*ssa.Store)
			if !ok {
				return
			}
			if fa, ok := st.Addr.(*ssa.FieldAddr); ok && fieldName(fa) == "Origin" {
				nOrig++
				c.Check(st.Val == ssa.Value(fromPhi), "C18.c", "origin-before-advance", "each request is created with the origin of its own chunk (the value of `from` before it is advanced)", s.prep, st, "Origin = "+pt.Of(st.Val), nil)
			}
		})
		c.Min("C18.c", "request literals in prepareRequests", nOrig, 1)
		// one iteration emits a request of size S for the remaining amount A and moves on to
		// (from', A'): S ≥ 1, S ≤ A, S ≤ per-peer size, A' = A − S, and from' = from + S (or A' = 0: the
		// loop ends). Proven per branch when the new values are merged by an if/else, and with the
		// min() axioms when the chunk size is min(A, per).
		hdr := amountPhi.Block()
		var amtStore *ssa.Store
		an.Instrs(s.prep, func(in ssa.Instruction) {
			if st, ok := in.(*ssa.Store); ok {
				if fa, ok := st.Addr.(*ssa.FieldAddr); ok && fieldName(fa) == "Amount" {
					amtStore = st
				}
			}
		})
		var nextA, nextF ssa.Value
		for i, e := range amountPhi.Edges {
			if pf.Dominates(hdr, hdr.Preds[i]) {
				nextA = e
			}
		}
		for i, e := range fromPhi.Edges {
			if pf.Dominates(fromPhi.Block(), fromPhi.Block().Preds[i]) {
				nextF = e
			}
		}
		if c.Check(amtStore != nil && nextA != nil && nextF != nil, "C18.c", "split-step", "each iteration stores the request size and carries new values of `from` and `amount` back", s.prep, nil, "", nil) {
			S := amtStore.Val
			// the merge block, if the three values are merged by an if/else
			var merge *ssa.BasicBlock
			for _, v := range []ssa.Value{S, nextA, nextF} {
				if ph, ok := v.(*ssa.Phi); ok && ph.Block() != hdr {
					merge = ph.Block()
				}
			}
			type tup struct {
				s, a, f ssa.Value
				fs      an.FactSet
				name    string
			}
			var tups []tup
			pick := func(v ssa.Value, i int) ssa.Value {
				if ph, ok := v.(*ssa.Phi); ok && merge != nil && ph.Block() == merge {
					return ph.Edges[i]
				}
				return v
			}
			if merge != nil {
				for i, pred := range merge.Preds {
					tups = append(tups, tup{pick(S, i), pick(nextA, i), pick(nextF, i), pf.EdgeFacts(pred, merge), "branch " + itoa(i)})
				}
			} else {
				tups = append(tups, tup{S, nextA, nextF, pf.AtInstr(amtStore), "single path"})
			}
			A, F := pt.Affine(amountPhi), pt.Affine(fromPhi)
			per := an.Var("p2", true)
			for _, tp := range tups {
				fs := append(append(an.FactSet{}, tp.fs...), an.NE(pt.Of(amountPhi), "0"))
				if perOK {
					fs = append(fs, an.NE("p2", "0"))
				}
				sa := pt.Affine(tp.s)
				okSz := pf.ProveGEFacts(fs, sa, an.Const(1), 0) && pf.ProveGEFacts(fs, A, sa, 0) && pf.ProveGEFacts(fs, per, sa, 0)
				c.Check(okSz, "C18.c", "chunk-size", "a chunk asks for at least one and at most min(remaining amount, per-peer size) headers", s.prep, amtStore, tp.name+": Amount = "+an.Stable(pt.Of(tp.s)), fs)
				dA := A.Sub(pt.Affine(tp.a)).Sub(sa)
				c.Check(dA.String() == "0", "C18.c", "amount-decreases", "the remaining amount decreases by exactly the size of the chunk just emitted (hence strictly: the chunk is ≥ 1)", s.prep, amountPhi, tp.name+": new amount "+an.Stable(pt.Of(tp.a)), fs)
				dF := pt.Affine(tp.f).Sub(F).Sub(sa)
				last := pt.Affine(tp.a).String() == "0"
				c.Check(dF.String() == "0" || last, "C18.c", "from-advances-by-chunk", "`from` advances by exactly the size of the chunk just emitted (it may stay when nothing remains)", s.prep, fromPhi, tp.name+": new from "+an.Stable(pt.Of(tp.f)), fs)
			}
			c.Min("C18.c", "ways through one splitting step", len(tups), 1)
		}
	}

	// --- C18.d peer return and queue pairing
	push := c.P.Method("p2p", "peerQueue", "push")
	waitPop := c.P.Method("p2p", "peerQueue", "waitPop")
	newQ := c.P.Func("p2p", "newPeerQueue")
	if c.Need(push, "C18.d", "p2p.(*peerQueue).push") && c.Need(waitPop, "C18.d", "p2p.(*peerQueue).waitPop") && c.Need(newQ, "C18.d", "p2p.newPeerQueue") {
		fl := an.Flow{Fn: s.doReq}
		isPush := func(in ssa.Instruction) bool {
			call, ok := in.(*ssa.Call)
			return ok && an.StaticCallee(&call.Call) == push && dt.Of(call.Call.Args[1]) == "p2"
		}
		nSucc := 0
		an.Instrs(s.doReq, func(in ssa.Instruction) {
			sd, ok := in.(*ssa.Send)
			if !ok || dt.Of(sd.Chan) != "p4" {
				return
			}
			nSucc++
			okP, bad := fl.MustFollow(sd, isPush, nil)
			c.Check(okP, "C18.d", "peer-returned-on-success", "after delivering its headers the peer is pushed back to the queue", s.doReq, sd, fmt.Sprint(bad), nil)
		})
		c.Min("C18.d", "success deliveries", nSucc, 1)
		// NOT_FOUND path: returns under Is(err, ErrNotFound) are preceded by push
		nNF := 0
		var nfFact *an.Fact
		for _, f := range condFacts(dt) {
			if f.Op == "B" && strings.HasPrefix(f.A, "errors.Is(") && strings.HasSuffix(f.A, ",header.ErrNotFound)") {
				g := an.B(f.A)
				nfFact = &g
			}
		}
		if nfFact != nil {
			prNF := df.Prune(*nfFact)
			flNF := an.Flow{Fn: s.doReq, Skip: prNF.Removed}
			for _, r := range prNF.Returns() {
				fs := prNF.AtInstr(r)
				requeued := false
				for _, f := range fs {
					if f.Op == "EQ" && f.Pos && strings.Contains(f.A+f.B, "*ssa.Select") && (f.A == "1" || f.B == "1") {
						requeued = true
					}
				}
				if !requeued || !fs.Has(*nfFact) {
					continue
				}
				nNF++
				c.Check(flNF.MustPrecede(isPush, r), "C18.d", "peer-returned-on-notfound", "a peer that answered NOT_FOUND is pushed back to the queue (it may serve other ranges)", s.doReq, r, "", fs)
			}
		}
		c.Min("C18.d", "NOT_FOUND exits of doRequest", nNF, 1)
		checkPeerReturnedOnEmptyResponse(c, "C18.d", s.doReq, isPush)

		// queue pairing
		qt := c.T(push)
		isHeapPush := an.IsStaticCallNamed("container/heap.Push")
		var tokenSend *ssa.Send
		an.Instrs(push, func(in ssa.Instruction) {
			if sd, ok := in.(*ssa.Send); ok && isRecvField(qt, sd.Chan, "havePeer") {
				tokenSend = sd
			}
		})
		okPair := tokenSend != nil && (an.Flow{Fn: push}).MustPrecede(isHeapPush, tokenSend)
		if okPair {
			for _, b := range push.Blocks {
				if r, ok := b.Instrs[len(b.Instrs)-1].(*ssa.Return); ok && (b.Index == 0 || len(b.Preds) > 0) {
					okPair = okPair && (an.Flow{Fn: push}).MustPrecede(func(in ssa.Instruction) bool { return in == ssa.Instruction(tokenSend) }, r)
				}
			}
		}
		c.Check(okPair, "C18.d", "push-pairs-token", "push adds the peer to the heap and then emits exactly one token on every path", push, nil, "", nil)
		wt, wf := c.T(waitPop), c.F(waitPop)
		var sel *ssa.Select
		tokenIdx := -1
		an.Instrs(waitPop, func(in ssa.Instruction) {
			if sl, ok := in.(*ssa.Select); ok {
				for i, st := range sl.States {
					if st.Send == nil && isRecvField(wt, st.Chan, "havePeer") {
						sel, tokenIdx = sl, i
					}
				}
			}
		})
		okPop := sel != nil
		nPop := 0
		if okPop {
			an.Instrs(waitPop, func(in ssa.Instruction) {
				if call, ok := in.(*ssa.Call); ok && an.StaticFullName(&call.Call) == "container/heap.Pop" {
					nPop++
					for k := range sel.States {
						if k == tokenIdx {
							continue
						}
						if wf.Prune(an.EQ(wt.Of(sel)+"#0", fmt.Sprint(k))).Reachable(call.Block()) {
							okPop = false
						}
					}
					okPop = okPop && (an.Flow{Fn: waitPop}).MustPrecede(func(i2 ssa.Instruction) bool { return i2 == ssa.Instruction(sel) }, call)
				}
			})
		}
		c.Check(okPop && nPop >= 1, "C18.d", "pop-needs-token", "waitPop pops the heap only after it received a token (never on the context cases)", waitPop, nil, "", nil)
		nt := c.T(newQ)
		okCap := false
		an.Instrs(newQ, func(in ssa.Instruction) {
			if mc, ok := in.(*ssa.MakeChan); ok && nt.Of(mc.Size) == "len(p1)" {
				okCap = true
			}
		})
		c.Check(okCap, "C18.d", "token-capacity", "the token channel can hold one token per peer of the session (push never blocks)", newQ, nil, "", nil)
	}

	// --- C18.e wire agreement
	conv := c.P.Func("p2p", "convertStatusCodeToError")
	if c.Need(conv, "C18.e", "p2p.convertStatusCodeToError") {
		if codeOK := pbConst(c, "StatusCode_OK"); codeOK != "" {
			ct, cf := c.T(conv), c.F(conv)
			for _, r := range cf.Returns() {
				if ct.ErrShape(errResult(r)) == "nil" {
					c.Check(cf.AtInstr(r).Has(an.EQ("p0", codeOK)), "C18.e", "status-ok-only", "only status OK converts to a nil error", conv, r, "", cf.AtInstr(r))
				}
			}
		}
	}
	// remaining index/subtraction sites of the worker are covered under C05.d; re-check the subtraction that feeds the remainder
	checkArith(c, "C18.b", []*ssa.Function{s.doReq}, map[string]bool{"usub": true}, nil, []arithException{
		{Func: "p2p.(*session).doRequest", Match: "+pb.GetOrigin(p3)) - 1", Reason: "req.Amount+origin-1 feeds only a log line"},
	})
}
