package selftest

func init() {
	const st = "store/store.go"
	const sd = "store/store_delete.go"
	add(
		Variant{Prop: "C04", Name: "get-skips-pending", File: st, Expect: "C04.a",
			Old: "\t// check if the requested header is not yet written on disk\n\tif h := s.pending.Get(hash); !h.IsZero() {\n\t\treturn h, nil\n\t}\n\n\tb, err := s.get(ctx, hash)", New: "\tb, err := s.get(ctx, hash)"},
		Variant{Prop: "C04", Name: "has-skips-pending", File: st, Expect: "C04.a",
			Old: "\tif ok := s.pending.Has(hash); ok {\n\t\treturn ok, nil\n\t}\n", New: ""},
		Variant{Prop: "C04", Name: "lookup-skips-pending", File: st, Expect: "C04.a",
			Old: "\tif h := s.pending.GetByHeight(height); !h.IsZero() {\n\t\treturn h, nil\n\t}\n\n\tctx, done := s.withReadTransaction(ctx)\n\tdefer done()\n\n\thash, err := s.heightIndex.HashByHeight(ctx, height, true)", New: "\tctx, done := s.withReadTransaction(ctx)\n\tdefer done()\n\n\thash, err := s.heightIndex.HashByHeight(ctx, height, true)"},
		Variant{Prop: "C04", Name: "head-shortcut-any-height", File: st, Expect: "C04.a",
			Old: "\tif !head.IsZero() && head.Height() == height {\n\t\treturn head, nil\n\t}", New: "\tif !head.IsZero() && head.Height() <= height {\n\t\treturn head, nil\n\t}"},
		Variant{Prop: "C04", Name: "head-walk-skips-a-height", File: st, Expect: "C04.b",
			Old: "\t\th, err := s.getByHeight(ctx, head.Height()+1)", New: "\t\th, err := s.getByHeight(ctx, head.Height()+2)"},
		Variant{Prop: "C04", Name: "head-walk-ignores-error", File: st, Expect: "C04.b",
			Old: "\t\th, err := s.getByHeight(ctx, head.Height()+1)\n\t\tif err != nil {\n\t\t\tlog.Debugw(\"next head error\", \"current\", head.Height(), \"err\", err)\n\t\t\treturn head, changed\n\t\t}", New: "\t\th, err := s.getByHeight(ctx, head.Height()+1)\n\t\tif err != nil && changed {\n\t\t\tlog.Debugw(\"next head error\", \"current\", head.Height(), \"err\", err)\n\t\t\treturn head, changed\n\t\t}"},
		Variant{Prop: "C04", Name: "tail-walk-skips-a-height", File: st, Expect: "C04.b",
			Old: "\t\th, err := s.getByHeight(ctx, tail.Height()-1)", New: "\t\th, err := s.getByHeight(ctx, tail.Height()-2)"},
		Variant{Prop: "C04", Name: "sethead-height-not-published", File: sd, Expect: "C04.c",
			Old: "\ts.heightSub.Init(newHead.Height())\n", New: ""},
		Variant{Prop: "C04", Name: "advance-publishes-old-height", File: st, Expect: "C04.c",
			Old: "\t\ts.contiguousHead.Store(&newHead)\n\t\ts.heightSub.SetHeight(newHead.Height())", New: "\t\ts.contiguousHead.Store(&newHead)\n\t\ts.heightSub.SetHeight(s.heightSub.Height())"},
		Variant{Prop: "C04", Name: "init-does-not-publish", File: st, Expect: "C04.c",
			Old: "\t\ts.contiguousHead.Store(&head)\n\t\ts.heightSub.Init(head.Height())\n\t\tlog.Debugw(\"initialized head\", \"height\", head.Height())\n\t}\n\n\ttail, err := s.readByKey(ctx, tailKey)", New: "\t\ts.contiguousHead.Store(&head)\n\t\tlog.Debugw(\"initialized head\", \"height\", head.Height())\n\t}\n\n\ttail, err := s.readByKey(ctx, tailKey)"},
		Variant{Prop: "C04", Name: "settail-does-not-advance", File: st, Expect: "C04.c",
			Old: "\t\ts.contiguousHead.Store(&newTail)\n\t\ts.advanceHead(ctx)", New: "\t\ts.contiguousHead.Store(&newTail)"},
		Variant{Prop: "C04", Name: "index-by-wrong-height", File: st, Expect: "C04.d",
			Old: "\t\terr := batch.Put(ctx, heightKey(h.Height()), h.Hash())", New: "\t\terr := batch.Put(ctx, heightKey(h.Height()+1), h.Hash())"},
		Variant{Prop: "C04", Name: "index-reads-raw-key", File: "store/height_indexer.go", Expect: "C04.d",
			Old: "\tval, err := hi.ds.Get(ctx, heightKey(h))", New: "\tval, err := hi.ds.Get(ctx, datastore.NewKey(fmt.Sprint(h)))",
			More: []Edit{{"store/height_indexer.go", "import (\n\t\"context\"\n", "import (\n\t\"context\"\n\t\"fmt\"\n"}}},
		Variant{Prop: "C04", Name: "range-off-by-one-start", File: st, Expect: "C04.e",
			Old: "\th, err := s.GetByHeight(ctx, to-1)\n\tif err != nil {\n\t\treturn nil, err\n\t}\n\n\tln := to - from", New: "\th, err := s.GetByHeight(ctx, to)\n\tif err != nil {\n\t\treturn nil, err\n\t}\n\n\tln := to - from"},
		Variant{Prop: "C04", Name: "range-guard-removed", File: st, Expect: "C04.e",
			Old: "\tif from >= to {\n\t\treturn nil, fmt.Errorf(\"header/store: invalid range(%d,%d)\", from, to)\n\t}", New: "\tif from > to {\n\t\treturn nil, fmt.Errorf(\"header/store: invalid range(%d,%d)\", from, to)\n\t}"},
		// benign
		Variant{Prop: "C04", Name: "benign-head-height-commuted", File: st,
			Old: "\tif !head.IsZero() && head.Height() == height {\n\t\treturn head, nil\n\t}", New: "\tif !head.IsZero() && height == head.Height() {\n\t\treturn head, nil\n\t}"},
		Variant{Prop: "C04", Name: "benign-walk-commuted", File: st,
			Old: "\t\th, err := s.getByHeight(ctx, head.Height()+1)", New: "\t\th, err := s.getByHeight(ctx, 1+head.Height())"},
		Variant{Prop: "C04", Name: "benign-range-guard-commuted", File: st,
			Old: "\tif from >= to {\n\t\treturn nil, fmt.Errorf(\"header/store: invalid range(%d,%d)\", from, to)\n\t}", New: "\tif to <= from {\n\t\treturn nil, fmt.Errorf(\"header/store: invalid range(%d,%d)\", from, to)\n\t}"},
	)
}
